#!/bin/bash
# scripts/refresh_evidence.sh [Cxx ...] -- runs the registered quick command of every (or the given) property in /verif against /repo,
# so that evidence/<Cxx>.json is rewritten by the committed checks; prints one line per property.
cd "$(dirname "$0")/.."
props="$@"; [ -z "$props" ] && props="C01 C02 C03 C04 C05 C06 C07 C08 C09 C10 C11 C12 C13 C14 C15 C16 C17 C18 C19 C20"
./scripts/build.sh all || exit 2
for c in $props; do
  out=$(VERIF_SKIP_BUILD=1 ./run $c quick 2>&1); rc=$?
  echo "$c rc=$rc $(echo "$out" | grep -E "^$c quick")"
  [ $rc -ne 0 ] && echo "$out" | grep -E "^VIOLATION|signature|INCONCLUSIVE" | cut -c1-400 | head -8
done
