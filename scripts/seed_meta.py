#!/usr/bin/env python3
"""Writes seeded/<id>/meta.json from the agent's description, the confirmation log and the check results,
and prints the table for DESIGN.md Appendix J."""
import glob, json, os, re
ROOT = os.path.dirname(os.path.dirname(os.path.abspath(__file__)))
# what was done to the checks after a seeded change was missed at its first exposure (commit of /verif and the gist)
STRENGTHENED = {
    "C01-A": "77d2f2f: huge / saturating index and length arguments in the stdlib matrix",
    "C01-B": "77d2f2f, 8aece1b: near-valid programs (every token of a valid program dropped or replaced by a look-alike), C15 similar-token sweep",
    "C01-C": "fb385e6: every lead byte x boundary second bytes x tails in every lexical context",
    "C01-D": "fb385e6: format string soup (the directive language inside std.format, every directive with and without '*')",
    "C02-C": "de06022: constructs over operands of every type, run through the reference interpreter",
    "C04-C": "84544c4: a file imported from two sites / through an ext-code-file is evaluated once (real files, the binary)",
    "C04-D": "session 3: rewrites applied to leaves with an outcome of their own (non-finite literals, failing leaves, constants)",
    "C05-A": "77d2f2f: keys drawn from the same hostile string pool as values (escapes needed in keys)",
    "C06-A": "77d2f2f: every literal also placed in delayed positions (local, argument, element, field)",
    "C06-B": "77d2f2f: literals with more than 40 significant digits at and next to rounding midpoints",
    "C07-C": "f8a76e1: comprehension-built layers that use super, +: and object locals",
    "C08-B": "fixed_order_and_equality_cases: objects whose visible field sets differ only by a hidden field of the same name",
    "C10-A": "25fc516: tailstrict calls in every non-tail position",
    "C10-C": "2ef6008: import cycles whose hops are spelled differently (real files, the binary)",
    "C11-C": "ba458e3: call thunks made by std.map / makeArray / mapWithKey in the shared library, failing elements re-evaluated",
    "C11-D": "ba458e3: derived objects (objectRemoveKey, +, mapWithKey) of shared library values in later requests",
    "C13-C": "5b91ee3: the same -J directory given several times, in every position",
    "C13-D": "5b91ee3: a directory in place of a file at a higher-priority location with a regular file further down the search order",
    "C14-A": "77d2f2f: comment bodies made of '*' and '/' runs in the token soup",
    "C16-B": "78ad94e / C16 templates: errors whose span touches the last byte of the file",
    "C17-B": "77d2f2f: -0 / +0 keys (zero_sign-aware comparison of sorted output)",
    "C09-E": "session 3 (written before this change was confirmed): faults inside dead code of every kind, literal short-circuits included",
    "C09-F": "session 3: a repeated parameter / local whose name is also bound in an enclosing scope",
    "C17-F": "session 3: structured input orders (non-increasing with ties, rotations, blocks, sawtooth, organ pipe)",
    "C18-F": "session 3: separator-dense subjects (built from the separator's own prefixes and suffixes, so that occurrences overlap)",
    "C19-E": "session 3: o/x/X must denote trunc(x) exactly at every magnitude; integers around every power of two up to 2^1023",
    "C19-F": "session 3: '.*' precision on %s and %c (argument consumption)",
    "C20-E": "session 3: malformed tails of \\u escapes and lenient number spellings in mutated documents",
    "C20-F": "session 3: std.parseYaml vs std.parseJson compared with the sign of zero",
    "C01-E": "caught by C09 (objlocal-in-compkey fault); C01's own generators do not produce closed programs with this shape",
    "C02-E": "caught by C06 (literals at and next to rounding midpoints, 16-19 significant digits); C02 keeps literals short by construction",
    "C04-E": "session 3: arguments that a callback ignores (initial value and elements of a fold, constant key functions, key-only mappings)",
    "C05-E": "session 3: keys drawn from the grammar of the YAML 1.1 implicit resolvers; the bare-key scanner skipped keys starting with '-' (oracle hole, fixed)",
    "C06-F": "session 3: digit strings whose value crosses the largest double at the last digits (also caught by C20 parse_radix at first exposure)",
    "C07-E": "session 3: operands used (manifested) on their own before they are combined",
    "C07-F": "session 3: library-made layers built from arguments with hidden / forced-visible / inherited visibilities",
    "C08-E": "session 3: operands that share their element thunks (same variable, common prefix, slices), untouched or already evaluated",
    "C10-E": "session 3: the largest limits the option accepts (2^31 .. 2^64-1)",
    "C10-F": "(caught at first exposure by the plus_chain shape added earlier in session 3, before this change was written)",
    "C11-F": "session 3: requests that die inside an assertion (condition / message fails, overflows, nested object's assertion fails)",
    "C12-E": "session 3: the same command run once more over its own results",
    "C13-E": "session 3 (written after reading the agent's report, before the first run; the old check had no file above 24 bytes): content at 4 KiB..256 KiB buffer boundaries",
    "C13-F": "session 3 (written after reading the agent's report, before the first run; the old check had no importer without a directory): -e / stdin / ext-code / tla-code importers",
    "C02-G": "session 3: scoping templates (a name bound by every kind of binder and bound again further in) run by the reference interpreter",
    "C02-H": "caught by C18 (slices with negative bounds on non-ASCII strings); C02 keeps strings ASCII where a slice is taken",
    "C04-G": "session 3: formatting consumes only what its directives use ('*' precision ignored by the conversion, unnamed object fields)",
    "C04-H": "session 3: element-wise builtins over the characters of a string",
    "C05-G": "session 3: manifesters_see_only_the_value - all manifesters in one program, any order, vs each in a program of its own",
    "C05-H": "session 3: manifesters_see_only_the_value - inherited objects with hidden fields as array elements / fields under every manifester",
    "C06-H": "first run inconclusive (wall limit on an overloaded machine), second run missed; session 3: number texts reached through YAML anchors and aliases (anchored values and anchored keys)",
    "C08-G": "session 3: both operands already evaluated by an earlier use (every operator and the __compare_array family)",
    "C11-G": "session 3: run-time names on objects whose assertion fails, next to sources that intern the same names",
    "C12-H": "session 3: --max-trace 0 / 1 among the extra flags, the value passing through std.trace inside calls (C16 catches it too: every --max-trace from 0)",
    "C18-G": "session 3: patterns that overlap themselves by a border of two or more characters",
    "C18-H": "session 3: white space of every kind around the subject",
    "C19-H": "session 3: digits far behind the point (precisions 300..1100 on doubles with up to 1074 fractional digits)",
    "C03-E": "(caught at first exposure by hook H4 - a handle traced twice - added earlier in session 3)",
    "C03-F": "(caught at first exposure by the per-edge garbage cycles of steady_state added earlier in session 3)",
}
rows = []
for d in sorted(glob.glob(os.path.join(ROOT, "seeded", "C*-[A-Z]"))):
    sid = os.path.basename(d)
    prop = sid.split("-")[0]
    am = json.load(open(os.path.join(d, "agent_meta.json"))) if os.path.exists(os.path.join(d, "agent_meta.json")) else {}
    log = open(os.path.join(d, "confirm.log")).read() if os.path.exists(os.path.join(d, "confirm.log")) else ""
    suite = re.search(r"suite with change: (.*)", log)
    # the last entry counts (a demonstration that wants the worktree path as $1 was re-run with it)
    d1 = (re.findall(r"demo with change: exit (\d+)", log) or [None])[-1]
    d0 = (re.findall(r"demo without change: exit (\d+)", log) or [None])[-1]
    first = re.findall(r"== check (C\d+) against the change\n(?:.*\n)*?exit=(\d+)", log)
    first_verdict = {c: ("caught" if rc == "1" else "missed" if rc == "0" else "exit " + rc) for c, rc in first}
    results = []
    caught_by = []
    if os.path.exists(os.path.join(d, "check_result.txt")):
        for line in open(os.path.join(d, "check_result.txt")):
            m = re.match(r"(C\d+) exit=(\d+) signatures:\s*(.*)", line.strip())
            if m:
                results.append({"check": m.group(1), "exit": int(m.group(2)), "signatures": m.group(3).split()})
                if m.group(2) == "1":
                    caught_by.append(m.group(1))
    meta = {
        "id": sid,
        "property": prop,
        "summary": am.get("summary", ""),
        "needs": am.get("needs", ""),
        "written_by": "independent sub-agent given only the property text and a scratch worktree",
        "confirmed_by_me": {
            "how": "scripts/seed_confirm.sh: patch applied in the scratch worktree /tmp/seed/%s, `cargo test --workspace --no-fail-fast --offline`, demonstration with and without the change" % prop,
            "suite_with_change": suite.group(1) if suite else None,
            "demo_exit_with_change": int(d1) if d1 else None,
            "demo_exit_without_change": int(d0) if d0 else None,
        },
        "verdict_at_first_exposure": first_verdict,
        "strengthened": STRENGTHENED.get(sid),
        "checks_run": results,
        "caught_by": caught_by,
        "agent_report": am.get("ran", ""),
    }
    json.dump(meta, open(os.path.join(d, "meta.json"), "w"), indent=1)
    def short(sig):
        return re.sub(r"panic:/tmp/mut/\d+/wt/", "panic:", sig)
    now = ", ".join(f"{r['check']}: " + ("caught (" + ", ".join(short(x) for x in r["signatures"][:2]) + ")" if r["exit"] == 1 else "MISSED" if r["exit"] == 0 else f"exit {r['exit']}") for r in results)
    fv = ", ".join(f"{c} {v}" for c, v in first_verdict.items()) or "-"
    rows.append((sid, (am.get("summary", "") or "").replace("|", "/").replace("\n", " ")[:200], fv, now, STRENGTHENED.get(sid) or ""))
print("| seed | change (agent's summary, shortened) | first exposure | quick checks now | strengthening that followed a miss |")
print("|---|---|---|---|---|")
for r in rows:
    print("| %s | %s | %s | %s | %s |" % r)
