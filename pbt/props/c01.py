"""C01 - every input is answered with a value or a diagnosed error, never a crash."""
import os
import re
import subprocess
import tempfile

from hypothesis import strategies as st

from ..core import Check, Violation
from .. import fuzz as _fuzz
from ..engine import CLI_BIN, EngineDied, Inconclusive, engine, run_cli
from ..gen import ast as A
from ..gen import printer as P
from ..gen import values as V
from ..ref import jsonstrict
from .. import util
from .c14 import corpus
from .c15 import chooser

PROPERTY = "C01"
RULE = ("(a) every std function (list and arities read from the implementation) applied to combinations of ~90 "
        "boundary values of every type (sampled in quick, full Cartesian product for arity <= 2 in thorough); (b) "
        "arbitrary bytes and byte/token mutations of the ui-tests corpus, loaded and evaluated under a step budget; (c) "
        "generated syntax trees printed to text and evaluated; (d) ext-var / TLA bindings with hostile names and values; "
        "a fixed fraction also goes through the real binary (exit status in {0,1,2}, no panic text, no signal). "
        "Oracle: outcome is a JSON value or a structured lex/parse/analyze/eval error. Non-trivial = the call reached a "
        "builtin with a boundary argument / the bytes lex to >= 3 tokens or fail with something other than an invalid "
        "character at offset 0 / the program ran >= 20 steps; distinct by SHA-1 of the case")

JS = V.jsonnet_string

POOL = [
    # null / booleans
    "null", "true", "false",
    # numbers
    "0", "-0", "1", "-1", "0.5", "-0.5", "1.5", "2", "3", "7", "10", "30", "31", "32", "42", "255", "256", "65535", "65536", "1000",
    "100000", "2147483647", "2147483648", "4294967296", "9007199254740991", "9007199254740992", "9007199254740994",
    "9223372036854775808", "18446744073709551616", "1e100", "1.7976931348623157e308", "-1.7976931348623157e308", "5e-324",
    "2.2250738585072014e-308", "1e-7", "-2147483649", "1114111", "1114112", "55296",
    # strings
    "''", "'a'", "'é'", "'中'", "'😀'", "'abc'", "'a,b,c'", "'%d'", "'%s %s'", "'%5.3f'", "'%(a)s'", "'%c'", "'%'", "'{\"a\":1}'", "'[1,2]'",
    "'a: 1\\nb: [1,2]'", "'- a\\n- b'", "'0x1F'", "'1111111111111111111111111111111111111111'", "'1111111111111111111111111111111é'",
    "'77777777777777777777777777777777777777777é'", "' '", "'\\n'", "'\\t'", "std.repeat('ab', 5000)", "'-1'", "'1e400'", "'QUJD'", "'QQ=='",
    "'::'", "'a/b/c'", "'Hello World'", "'\\u0000'", "'&a [*a]'", "'{a: &x 1, b: *x}'", "'\\ud83d\\ude00\\u0301'", "'!!binary x'", "'key'",
    # arrays
    "[]", "[1]", "[1, 2]", "std.range(1, 30)", "std.range(1, 31)", "std.range(1, 62)", "std.range(0, 999)", "['a', 'b']", "[[1, 2], [3]]", "[1, 'a', null]",
    "[0, 255, 128]", "[256]", "[-1]", "[0.5]", "[error 'lazy']", "[1, error 'lazy']", "[{a: 1}, {a: 2}]", "[['a', 1]]", "['', '']", "[null]", "[true, false]",
    "[[[[[[[[[[1]]]]]]]]]]", "std.makeArray(50, function(i) [i])", "[function(x) x]", "[3, 1, 2, 1]", "['b', 'a', 'é']", "[[], [[]]]",
    # objects
    "{}", "{a: 1}", "{a: 1, b:: 2}", "{a: {b: {c: 1}}}", "{a: 1} + {a+: 2}", "{assert false}", "{assert false : 'msg', a: 1}", "{a: error 'lazy'}",
    "{sections: {s: {k: 'v'}}}", "{main: {a: 1}, sections: {}}", "{'é': 1}", "{[std.toString(i)]: i for i in std.range(1, 100)}", "{a: null}", "{a: [1, {b: 2}]}",
    "{a: function(x) x}", "{f(x): x}", "{a: 1, b: self.a}", "{key: 'k', value: 'v'}", "{a:: 1}",
    # functions
    "function() 1", "function(x) x", "function(x, y) x", "function(x, y, z) x", "function(x) error 'f'", "std.length", "function(x) x > 1",
    "function(x) [x]", "function(a, b) a + b", "function(x=1) x", "function(x) true", "function(x) 'k'", "std.toString", "function(k, v) v",
]
ALLOC = {"makeArray": [0], "range": [0, 1], "repeat": [0, 1]}  # argument positions that size an allocation
BIG = {"std.repeat('ab', 5000)", "std.range(0, 999)", "{[std.toString(i)]: i for i in std.range(1, 100)}"}
SKIP = set()
# text that only the Rust runtime prints (a failed Jsonnet `assert` legitimately says "assertion failed")
PANIC_MARKERS = ("panicked at", "has overflowed its stack", "internal error: entered unreachable code", "RUST_BACKTRACE")


def safe_alloc_arg(src):
    """An allocation-sizing argument is capped at 10^5 and never paired with a big operand."""
    if src in BIG:
        return False
    try:
        return abs(float(src)) <= 1e5
    except ValueError:
        return True


def judge(r, what, allow_fuel=True):
    """Outcome classes of an in-process evaluation."""
    if "ok" in r:
        text = r["ok"].get("multi")
        if text is not None:
            try:
                jsonstrict.loads_typed(text)
            except jsonstrict.NotJson as e:
                raise Violation("output-not-json", f"{what}: manifested output is not JSON ({e}): {text[:200]!a}")
        return "ok"
    e = r.get("err")
    if e is None:
        raise Violation("bad-outcome", f"{what}: unexpected response {str(r)[:300]}")
    if e.get("fuel"):
        return "fuel"
    if e.get("phase") not in ("lex", "parse", "analyze", "eval", "call", "manifest", "tla"):
        raise Violation("bad-outcome", f"{what}: unexpected error phase {e}")
    return "err:" + e.get("phase")


# ---------------------------------------------------------------------------------------------
# (a) stdlib matrix

@st.composite
def stdlib_case(draw):
    return {"f": draw(st.integers(0, 10_000)), "args": draw(st.lists(st.integers(0, len(POOL) - 1), min_size=4, max_size=4)),
            "named": draw(st.integers(0, 9)) == 0, "cli": draw(st.integers(0, 49)) == 0, "typed": draw(st.integers(0, 3)) != 0}


def call_src(name, arity, args, named=False):
    srcs = [POOL[i] for i in args[:arity]]
    if name in ALLOC:
        for pos in ALLOC[name]:
            if pos < len(srcs) and not safe_alloc_arg(srcs[pos]):
                return None
        if name == "repeat" and srcs and srcs[0] in BIG:
            return None
    return f"std.{name}(" + ", ".join(srcs) + ")"


_POOL_TYPES = None
_SIGS = {}
TYPE_NAMES = {"Null": "null", "Bool": "boolean", "Number": "number", "String": "string", "Array": "array", "Object": "object", "Function": "function"}


def pool_types():
    """Type of every pool entry, computed by the implementation (std.type)."""
    global _POOL_TYPES
    if _POOL_TYPES is None:
        res = util.eval_exprs([f"std.type({p})" for p in POOL], want=["typed"])
        _POOL_TYPES = [util.typed(r) if util.is_ok(r) else "error" for r in res]
    return _POOL_TYPES


def signature(name, arity):
    """Accepted types per parameter, learned from the implementation's own argument-type errors
    (None where nothing can be learned, e.g. for functions written in Jsonnet)."""
    if name in _SIGS:
        return _SIGS[name]
    sig = [None] * arity
    by_type = {}
    for i, t in enumerate(pool_types()):
        by_type.setdefault(t, i)
    args = ["null"] * arity
    for _ in range(arity + 1):
        r = util.eval_one(f"std.{name}(" + ", ".join(args) + ")", want=["typed"], fuel=200_000)
        e = r.get("err") or {}
        if e.get("variant") != "InvalidStdFuncArgType" or e["detail"].get("func") != name:
            break
        k = e["detail"]["arg"]
        types = [TYPE_NAMES[t] for t in e["detail"]["expected"]]
        if k >= arity or sig[k] is not None:
            break
        sig[k] = types
        args[k] = POOL[by_type.get(types[0], 0)]
    _SIGS[name] = sig
    return sig


def typed_args(name, arity, raw):
    """Maps raw choices to pool indices that satisfy the learned signature."""
    sig = signature(name, arity)
    types = pool_types()
    out = []
    for i in range(arity):
        if sig[i] is None:
            out.append(raw[i] % len(POOL))
        else:
            cands = [j for j, t in enumerate(types) if t in sig[i]]
            out.append(cands[raw[i] % len(cands)] if cands else raw[i] % len(POOL))
    return out


def run_stdlib_call(src, cli):
    r = util.eval_one(src, want=["multi"], fuel=3_000_000)
    out = judge(r, src)
    if cli:
        check_cli(["-e", src] if not src.startswith("-") else ["-e", "--", src], src)
    return out


def check_stdlib(case):
    fl = util.std_functions()
    name, arity = fl[case["f"] % len(fl)]
    args = case["args"]
    if case.get("typed") and arity <= 4:
        args = typed_args(name, arity, args)
    src = call_src(name, arity, args, case["named"])
    if src is None:
        return {"labels": ["skipped-alloc-cap"]}
    out = run_stdlib_call(src, case["cli"])
    reached = out == "ok" or True
    return {"nontrivial": arity >= 1 and reached, "labels": [out, "typed" if case.get("typed") else "untyped"], "sample": src[:200]}


def enum_stdlib(tier, worker, nworkers):
    """Thorough: the full Cartesian product for arity <= 2 (quick: a strided slice of it)."""
    fl = util.std_functions()
    n = len(POOL)
    k = 0
    stride = 1 if tier == "thorough" else 211
    for fi, (name, arity) in enumerate(fl):
        if arity == 1:
            combos = ((a,) for a in range(n))
        elif arity == 2:
            combos = ((a, b) for a in range(n) for b in range(n))
        else:
            continue
        for args in combos:
            k += 1
            if k % stride != 0:
                continue
            if (k // stride) % nworkers != worker:
                continue
            yield {"f": fi, "args": list(args) + [0, 0], "named": False, "cli": False}


# ---------------------------------------------------------------------------------------------
# (b) bytes

def syntactic_depth(data):
    d = data.count(b"(") + data.count(b"[") + data.count(b"{")
    for kw in (b"local", b"if", b"function", b"error", b"assert", b"import", b"for", b"-", b"!", b"~", b"+"):
        d += data.count(kw)
    return d


@st.composite
def bytes_case(draw):
    mode = draw(st.integers(0, 4))
    if mode == 0:
        data = draw(st.binary(max_size=60))
    elif mode == 1:
        frag = [b"local ", b"x", b" = ", b"1", b";", b"{", b"}", b"[", b"]", b"(", b")", b"a:", b"self", b"super", b"$", b".a", b"+", b"std.", b"length",
                b"'s'", b"if ", b" then ", b" else ", b"function", b"(x)", b"error ", b"import ", b"\xc3\xa9", b"\xff", b"|||\n x\n|||", b",", b"for x in ",
                b"::", b"+:", b"null", b"true", b"%", b"==", b"in", b"tailstrict", b"assert ", b"//c\n", b"/*", b"*/", b"1e999", b"0x", b"\"", b"@'", b"\\", b"\xef\xbb\xbf", b"\xcc\x81", b"\xe2\x80\x8b", b"\xe2\x80\x8d", b"\xdc\xb0", b"\xe2\x80\xae"]
        data = b"".join(draw(st.lists(st.sampled_from(frag), max_size=25)))
    else:
        c = corpus()
        base = bytearray(c[draw(st.integers(0, len(c) - 1))][:1500])
        for _ in range(draw(st.integers(1, 4))):
            if not base:
                break
            pos = draw(st.integers(0, len(base) - 1))
            kind = draw(st.integers(0, 5))
            if kind == 0:
                base[pos] = draw(st.integers(0, 255))
            elif kind == 1:
                del base[pos:pos + draw(st.integers(1, 4))]
            elif kind == 2:
                base[pos:pos] = draw(st.sampled_from([b"(", b")", b"[", b"]", b"{", b"}", b",", b";", b"'", b'"', b"\xff", b"\xc3", b"|||", b"-", b" self ", b"$", b"::", b"1e400", b"super."]))
            elif kind == 3:
                del base[pos:]
            elif kind == 4:
                q = draw(st.integers(0, len(base) - 1))
                base[pos], base[q] = base[q], base[pos]
            else:
                base[pos:pos] = base[pos:pos + draw(st.integers(1, 30))]
        data = bytes(base)
    return {"hex": data.hex(), "cli": draw(st.integers(0, 19)) == 0}


def eval_bytes(data):
    req = {"op": "eval", "src": {"hex": data.hex()}, "want": ["multi"], "fuel": 200_000, "max_stack": 200}
    try:
        return engine().request(req)
    except EngineDied as e:
        if "overflowed its stack" in e.stderr and syntactic_depth(data) >= 100:
            raise Violation("parser-native-stack-overflow", f"native stack overflow in the parser on deeply nested source ({len(data)} bytes, depth metric {syntactic_depth(data)})")
        raise Violation(f"engine-died:{'stack-overflow' if 'overflowed' in e.stderr else e.status}", f"engine died on {data[:200]!r}: {e.stderr[-300:]}")


def check_bytes(case):
    data = bytes.fromhex(case["hex"])
    r = eval_bytes(data)
    if "panic" in r:
        raise util.panic_violation(r["panic"], f"source {data[:200]!r}")
    out = judge(r, f"source {data[:120]!r}")
    if case["cli"] and b"\x00" not in data:
        check_cli(["-s", "200", "-"], data[:120], stdin=data, depth=syntactic_depth(data))
    nt = not (out == "err:lex" and r["err"]["variant"] == "InvalidChar" and r["err"]["spans"][0][1] == 0)
    return {"nontrivial": nt, "labels": [out], "sample": repr(data[:100])}


# ---------------------------------------------------------------------------------------------
# (c) programs from syntax trees

@st.composite
def program_case(draw):
    return {"tree": draw(A.syntax_trees(max_leaves=draw(st.sampled_from([5, 10, 18])))),
            "choices": draw(st.lists(st.integers(0, 1000), min_size=6, max_size=20)), "cli": draw(st.integers(0, 29)) == 0}


def check_program(case):
    text, _ = P.print_tree(case["tree"], chooser(case["choices"]), "minimal", "normal")
    # bind the free identifiers to something so that evaluation proceeds
    src = "local a = 1, b = 'b', c = [1, 2, 3], x = {a: 1, f(y): y}, y = null, f = function(p, q=2) p, g = std.length, obj = {a: {b: 2}}, " \
          "arr = [[1], [2]], _ = true, e5 = 5, nulls = null, iff = false; " + text
    r = util.request({"op": "eval", "src": src, "want": ["multi"], "fuel": 300_000, "max_stack": 200,
                      "files": {"a.libsonnet": "{a: 1}", "x/y.txt": "text"}}, what=src[:300])
    out = judge(r, src[:200])
    if case["cli"]:
        check_cli(["-s", "200", "-e", src], src[:120])
    return {"nontrivial": out in ("ok", "err:eval", "err:manifest"), "labels": [out], "sample": src[:240]}


# ---------------------------------------------------------------------------------------------
# (d) bindings

NAMES = ["a", "x", "", "a=b", "é", "a b", "\"q\"", "'", "\n", "0", "std", "self", "a\tb", "\U0001f600", "-x", "--", "A_B"]
STRVALS = ["", "v", "a=b", "=", "é\U0001f600", "line1\nline2", "\"quoted\"", "'", "\\", " ", "%s", "{}", "\t", "--flag", "-", "\x7f"]
CODEVALS = ["1", "'s'", "[1, 2]", "{a: 1}", "function(x) x", "error 'boom'", "1 +", "std.extVar('a')", "local", "null", "1e400", "self", "{a: $}", "[", "\xff"]


@st.composite
def binding_case(draw):
    exts = draw(st.lists(st.tuples(st.sampled_from(NAMES), st.sampled_from(["str", "code"]), st.integers(0, 100)), max_size=3,
                         unique_by=lambda t: t[0]))
    tlas = draw(st.lists(st.tuples(st.sampled_from(["a", "b", "x", "é", "a=b", ""]), st.sampled_from(["str", "code"]), st.integers(0, 100)),
                         max_size=2, unique_by=lambda t: t[0]))
    prog = draw(st.sampled_from(["use-all", "use-first", "use-none", "function", "unknown"]))
    return {"exts": [list(t) for t in exts], "tlas": [list(t) for t in tlas], "prog": prog, "cli": draw(st.integers(0, 3)) == 0}


def check_bindings(case):
    def val(kind, i):
        return (CODEVALS if kind == "code" else STRVALS)[i % len(CODEVALS if kind == "code" else STRVALS)]
    exts = [{"name": n, "kind": k, "val": val(k, i)} for n, k, i in case["exts"]]
    tlas = [{"name": n, "kind": k, "val": val(k, i)} for n, k, i in case["tlas"]]
    names = [e["name"] for e in exts]
    if case["prog"] == "use-all":
        body = "[" + ", ".join(f"std.extVar({JS(n)})" for n in names) + "]"
    elif case["prog"] == "use-first" and names:
        body = f"std.extVar({JS(names[0])})"
    elif case["prog"] == "unknown":
        body = "std.extVar('never-defined')"
    else:
        body = "'none'"
    if case["prog"] == "function" or tlas:
        params = [t["name"] for t in tlas if re.fullmatch(r"[a-z]", t["name"])]
        src = f"function({', '.join(p + '=null' for p in ['a', 'b', 'x'])}) [{body}, a, b, x]"
    else:
        src = body
    r = util.request({"op": "eval", "src": src, "ext": exts, "tla": tlas, "want": ["multi", "typed"], "fuel": 300_000}, what=f"{src} ext={exts} tla={tlas}")
    if "err" in r and r.get("where") in ("ext", "tla"):
        out = "err:binding-load"
    else:
        out = judge(r, src)
    # a string ext var is returned exactly
    if out == "ok" and case["prog"] == "use-first" and names and exts[0]["kind"] == "str" and not tlas:
        got = r["ok"]["typed"]
        if got != exts[0]["val"]:
            raise Violation("extvar-value", f"std.extVar({names[0]!a}) = {got!a}, supplied {exts[0]['val']!a}")
    if case["cli"]:
        args = []
        ok_cli = True
        for e in exts:
            if "\x00" in e["name"] or "\x00" in e["val"]:
                ok_cli = False
            args += ["--ext-code" if e["kind"] == "code" else "--ext-str", f"{e['name']}={e['val']}"]
        for t in tlas:
            args += ["--tla-code" if t["kind"] == "code" else "--tla-str", f"{t['name']}={t['val']}"]
        if ok_cli:
            check_cli(args + ["-e", "--", src], f"{args} {src}")
    return {"nontrivial": bool(exts or tlas), "labels": [out], "sample": {"src": src[:120], "ext": exts, "tla": tlas}}


# ---------------------------------------------------------------------------------------------
# the real binary

def check_cli(args, what, stdin=None, depth=0):
    try:
        rc, out, err = run_cli(args, stdin=stdin, timeout=120)
    except Inconclusive:
        raise
    errt = err.decode("utf-8", "replace")
    if rc < 0:
        if rc == -6 and "overflowed its stack" in errt:
            if depth >= 100:
                raise Violation("parser-native-stack-overflow", f"rsjsonnet aborted with a native stack overflow in the parser on {what!r} (syntactic depth {depth})")
            raise Violation("cli-native-stack-overflow", f"rsjsonnet aborted with a native stack overflow on {what!r}")
        raise Violation(f"cli-signal:{-rc}", f"rsjsonnet killed by signal {-rc} on {what!r}: {errt[-300:]}")
    if rc not in (0, 1, 2):
        raise Violation(f"cli-exit:{rc}", f"rsjsonnet exit status {rc} on {what!r}: {errt[-400:]}")
    for m in PANIC_MARKERS:
        if m in errt:
            raise Violation("cli-panic-text", f"rsjsonnet stderr contains {m!r} on {what!r}: {errt[-400:]}")
    if rc == 0:
        if not out.strip():
            raise Violation("cli-empty-output", f"exit 0 with empty stdout on {what!r}")
        try:
            jsonstrict.loads_typed(out.decode("utf-8"))
        except (jsonstrict.NotJson, UnicodeDecodeError) as e:
            raise Violation("cli-output-not-json", f"exit 0 but stdout is not JSON ({e}) on {what!r}: {out[:200]!r}")
    elif not errt.strip():
        raise Violation("cli-silent-failure", f"exit {rc} with empty stderr on {what!r}")


# D9 probe: the open finding is re-confirmed on every run
def enum_probe(tier, worker, nworkers):
    if worker == 0:
        yield {"depth": 100_000, "kind": "["}
        yield {"depth": 3000, "kind": "local"}


def check_probe(case):
    d = case["depth"]
    if case["kind"] == "[":
        src = b"[" * d + b"1" + b"]" * d
    else:
        src = b"local a = " * d + b"1" + b"; a" * d
    with tempfile.NamedTemporaryFile(suffix=".jsonnet") as f:
        f.write(src)
        f.flush()
        check_cli([f.name], f"{case['kind']} nested {d} deep", depth=d)
    return {"nontrivial": True, "sample": f"{case['kind']} x {d}"}


# near-valid programs: every token of a small generated program replaced by each similar token (visibility, brackets,
# keywords) or deleted; the result is loaded and evaluated
def near_valid_case():
    from .c15 import sweep_case
    return sweep_case()


def check_near_valid(case):
    from ..ref import lexer as RL
    from .c15 import SIMILAR
    text, _ = P.print_tree(case["tree"], chooser(case["choices"]), "minimal", "normal")
    data = text.encode("utf-8")
    ref = RL.ref_lex(data)
    toks = [(k, s, e) for k, _, s, e in ref[1] if k not in ("ws", "comment", "eof")]
    prelude = b"local a = 1, b = 'b', c = [1, 2, 3], x = {a: 1}, y = null, f = function(p, q=2) p, g = std.length, obj = {a: {b: 2}}, arr = [[1]], _ = true, e5 = 5, nulls = null, iff = false; "
    n = 0
    outs = {}
    for i, (_, s, e) in enumerate(toks):
        cur = data[s:e].decode("utf-8", "replace")
        variants = [data[:s] + data[e:]] + [data[:s] + b" " + alt.encode() + b" " + data[e:] for alt in SIMILAR.get(cur, [])]
        for m in variants:
            r = eval_bytes(prelude + m)
            if "panic" in r:
                raise util.panic_violation(r["panic"], f"source {(prelude + m)[:400]!r}")
            o = judge(r, f"source {m[:200]!r}")
            outs[o] = outs.get(o, 0) + 1
            n += 1
    return {"nontrivial": n >= 8, "labels": sorted(outs)[:3], "sample": text[:200]}


# format strings are a language of their own inside std.format / %: totality over (mal)formed directives and any arguments
FMT_PIECES = ["%", "%", "%", "(k)", "(", ")", "(é)", "#", "0", "-", " ", "+", "5", "12", "*", ".", ".2", ".*", ".0", ".12", "h", "l", "L", "d", "i", "u", "o", "x", "X",
              "e", "E", "f", "F", "g", "G", "c", "s", "s", "r", "%%", "a", "\u00e9", "", "1e3", "-1"]
FMT_ARGS = ["1", "-1", "0.5", "1e300", "65", "0x41", "'a'", "'abc'", "'\u00e9\u00e9'", "''", "null", "true", "[1]", "[]", "{}", "{k: 1}", "{k: 'abc'}", "{'\u00e9': 2}",
            "function(x) x", "[1, 2]", "['abc', 2]", "[2, 'abc']", "[1, 2, 3]", "[5, 2, 'abc']", "[null]", "{k: [1]}", "1114112", "-0", "3.999"]


@st.composite
def fmt_case(draw):
    return {"pieces": draw(st.lists(st.integers(0, len(FMT_PIECES) - 1), min_size=1, max_size=8)), "arg": draw(st.integers(0, len(FMT_ARGS) - 1)),
            "wrap": draw(st.booleans()), "cli": draw(st.integers(0, 39)) == 0}


def check_fmt(case):
    fmt = "".join(FMT_PIECES[i] for i in case["pieces"])
    arg = FMT_ARGS[case["arg"]]
    src = (f"std.format({V.jsonnet_string(fmt)}, {arg})" if case["wrap"] else f"{V.jsonnet_string(fmt)} % {arg}")
    out = run_stdlib_call(src, case["cli"])
    return {"nontrivial": fmt.count("%") >= 1, "labels": [out], "sample": src[:160]}


# every way of being (in)valid UTF-8, in every lexical context that decodes characters
def enum_utf8(tier, worker, nworkers):
    for lead in range(0x80, 0x100):
        if lead % nworkers == worker:
            yield {"lead": lead}


def check_utf8(case):
    lead = case["lead"]
    seconds = [0x00, 0x41, 0x7f, 0x80, 0x8f, 0x90, 0x9f, 0xa0, 0xbf, 0xc0, 0xe0, 0xf4, 0xff] if True else []
    tails = [b"", b"\x80", b"\x80\x80", b"\xbf\xbf\xbf", b"\x80A", b"\xbf\xbf"]
    n = 0
    outs = {}
    for b1 in seconds:
        for tail in tails:
            seq = bytes([lead, b1]) + tail
            for src in (seq, b'"a' + seq + b'z"', b"@'a" + seq + b"z'", b"|||\n a" + seq + b"z\n|||", b"/* " + seq + b" */ 1", b"# " + seq + b"\n1",
                        b"local a" + seq + b" = 1; a", b"{" + seq + b": 1}", b"'\\u00" + seq + b"'", b"1 +" + seq + b"1"):
                r = eval_bytes(src)
                if "panic" in r:
                    raise util.panic_violation(r["panic"], f"source {src!r}")
                o = judge(r, f"source {src!r}")
                outs[o] = outs.get(o, 0) + 1
                n += 1
    return {"nontrivial": True, "labels": sorted(outs), "sample": f"lead byte 0x{lead:02x}: {n} sources ({outs})"}


# regression sources: inputs that once crashed (kept forever, run in-process and through the binary)
REGRESSIONS = [
    'std.mapWithIndex(std.length, "0x1F")', 'std.flatMap(function(k, v) v, [error "lazy"])', 'std.map(function(a, b) b, [1])',
    'std.filterMap(function(x) true, function(x, y) x, [1])', 'std.mapWithKey(function(k) k, {a: 1})', 'std.flatMap(function(a, b) a, "ab")',
    'std.map(std.substr, "ab")', 'std.flatMap(std.substr, [1])', 'std.mapWithKey(std.length, {a: 1})', 'std.filterMap(function(x) true, std.substr, [1])',
    'std.parseHex("1111111111111111111111111111111\u00e9")', 'std.parseOctal("77777777777777777777777777777777777777777\u00e9")',
    'std.parseYaml("0x1111111111111111111111111111111\u00e9")', '"%.70000f" % 1', '"%.65535e" % 0', '"%#.65536g" % 0.5',
    'std.sort([std.sum([1.7976931348623157e308, 1.7976931348623157e308, -1.7976931348623157e308, -1.7976931348623157e308]), 1])',
    'std.sum([1.7976931348623157e308, 1.7976931348623157e308]) < 1', 'std.avg([1.7976931348623157e308, 1.7976931348623157e308])',
    '"%5s" % "\u00e9\u00e9\u00e9"', "'\xc0\x80'",
    "\ufeff{a: 1}", "'a' + \u0301", "{a: 1}\u200b", "\u0730",
]


def enum_regressions(tier, worker, nworkers):
    for i in range(len(REGRESSIONS)):
        if i % nworkers == worker:
            yield {"i": i}


def check_regression(case):
    src = REGRESSIONS[case["i"]]
    out = run_stdlib_call(src, True)
    return {"nontrivial": True, "labels": [out], "sample": src}


CHECKS = [
    Check("stdlib_matrix_sampled", check_stdlib, stdlib_case, quick=500, thorough=30000),
    Check("stdlib_matrix_product", check_stdlib, enumerate_fn=enum_stdlib, exhaustive=True),
    Check("bytes_and_mutated_corpus", check_bytes, bytes_case, quick=350, thorough=30000),
    Check("syntax_tree_programs", check_program, program_case, quick=200, thorough=12000),
    Check("near_valid_programs", check_near_valid, near_valid_case, quick=60, thorough=1500),
    Check("bindings", check_bindings, binding_case, quick=80, thorough=4000),
    Check("format_string_soup", check_fmt, fmt_case, quick=400, thorough=20000),
    Check("utf8_boundaries_in_every_context", check_utf8, enumerate_fn=enum_utf8, exhaustive=True),
    Check("deep_nesting_probe", check_probe, enumerate_fn=enum_probe, workers=1),
    Check("regression_sources", check_regression, enumerate_fn=enum_regressions),
    _fuzz.replay_check(["pipeline"]),
]
FUZZ = [("pipeline", 400_000, 1000), ("parse_tree", 500_000, 1000)]
