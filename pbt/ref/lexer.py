"""Reference lexer for Jsonnet, written from the language specification (lexical section).

ref_lex(data: bytes) -> ("ok", [Token]) | ("err", label, pos)
Token = (kind, value, start, end); kinds: ws, comment, simple, op, ident, number, string, textblock, eof.
Number values are (text_without_underscores,) -- compared by exact decimal value.
Invalid UTF-8 inside strings, text blocks and comments is replaced as bytes.decode("utf-8", "replace") does.
"""

KEYWORDS = {
    "assert": "Assert", "else": "Else", "error": "Error", "false": "False", "for": "For", "function": "Function",
    "if": "If", "import": "Import", "importstr": "Importstr", "importbin": "Importbin", "in": "In", "local": "Local",
    "null": "Null", "tailstrict": "Tailstrict", "then": "Then", "self": "Self_", "super": "Super", "true": "True",
}
SYMBOLS = {
    "{": "LeftBrace", "}": "RightBrace", "[": "LeftBracket", "]": "RightBracket", ",": "Comma", ".": "Dot",
    "(": "LeftParen", ")": "RightParen", ";": "Semicolon",
}
OPERATORS = {
    ":": "Colon", "::": "ColonColon", ":::": "ColonColonColon", "+:": "PlusColon", "+::": "PlusColonColon",
    "+:::": "PlusColonColonColon", "=": "Eq", "$": "Dollar", "*": "Asterisk", "/": "Slash", "%": "Percent", "+": "Plus",
    "-": "Minus", "<<": "LtLt", ">>": "GtGt", "<": "Lt", "<=": "LtEq", ">": "Gt", ">=": "GtEq", "==": "EqEq",
    "!=": "ExclamEq", "&": "Amp", "^": "Hat", "|": "Pipe", "&&": "AmpAmp", "||": "PipePipe", "!": "Exclam", "~": "Tilde",
}
OPCHARS = b"!$:~+-&|^=<>*/%"
WS = b" \t\n\r"
IDSTART = b"_abcdefghijklmnopqrstuvwxyzABCDEFGHIJKLMNOPQRSTUVWXYZ"
IDCONT = IDSTART + b"0123456789"
DIGITS = b"0123456789"


class LexErr(Exception):
    def __init__(self, label, pos):
        super().__init__(label)
        self.label = label
        self.pos = pos


def lossy(b):
    return bytes(b).decode("utf-8", "replace")


def utf8_char_len(data, i):
    """Length of the valid UTF-8 character at i, or 0 if the bytes there are not a valid character."""
    b0 = data[i]
    if b0 < 0x80:
        return 1
    for n in (2, 3, 4):
        try:
            s = bytes(data[i:i + n]).decode("utf-8")
            if len(s) == 1:
                return n
        except UnicodeDecodeError:
            pass
    return 0


def lex_operator(data, i):
    """Maximal munch with the specification's restrictions; returns end offset."""
    j = i
    n = len(data)
    while j < n and data[j] in OPCHARS:
        if j > i and (data[j:j + 2] == b"//" or data[j:j + 2] == b"/*" or data[j:j + 3] == b"|||"):
            break
        j += 1
    # an operator longer than one character cannot end in + - ~ ! $
    while j - i > 1 and data[j - 1] in b"+-~!$":
        j -= 1
    return j


def lex_number(data, i):
    n = len(data)
    j = i

    def digits(j, what):
        # one or more digits, single underscores allowed between digits
        if j >= n or data[j] not in DIGITS:
            raise LexErr(what, j)
        while True:
            while j < n and data[j] in DIGITS:
                j += 1
            if j < n and data[j] == ord("_"):
                if j + 1 < n and data[j + 1] in DIGITS:
                    j += 1
                    continue
                raise LexErr("underscore", j)
            return j

    if data[j] == ord("0"):
        j += 1
        if j < n and data[j] in DIGITS:
            raise LexErr("leading-zero", j)
        if j < n and data[j] == ord("_"):
            if j + 1 < n and data[j + 1] in DIGITS:
                raise LexErr("leading-zero", j)
            raise LexErr("underscore", j)
    else:
        j = digits(j, "int")
    if j < n and data[j] == ord("."):
        j = digits(j + 1, "frac")
    if j < n and data[j] in b"eE":
        j += 1
        if j < n and data[j] in b"+-":
            j += 1
        j = digits(j, "exp")
    return j


def lex_quoted(data, i):
    delim = data[i]
    n = len(data)
    j = i + 1
    out = []
    raw_start = j
    while True:
        if j >= n:
            raise LexErr("unfinished-string", i)
        b = data[j]
        if b == delim:
            out.append(lossy(data[raw_start:j]))
            return "".join(out), j + 1
        if b == ord("\\"):
            out.append(lossy(data[raw_start:j]))
            if j + 1 >= n:
                raise LexErr("unfinished-string", i)
            c = data[j + 1]
            simple = {ord('"'): '"', ord("'"): "'", ord("\\"): "\\", ord("/"): "/", ord("b"): "\b", ord("f"): "\f",
                      ord("n"): "\n", ord("r"): "\r", ord("t"): "\t"}
            if c in simple:
                out.append(simple[c])
                j += 2
            elif c == ord("u"):
                def unit(k):
                    h = bytes(data[k:k + 4])
                    if len(h) < 4 or any(ch not in b"0123456789abcdefABCDEF" for ch in h):
                        raise LexErr("bad-unicode-escape", k)
                    return int(h, 16)
                cu1 = unit(j + 2)
                j += 6
                if 0xD800 <= cu1 <= 0xDFFF:
                    if data[j:j + 2] == b"\\u":
                        cu2 = unit(j + 2)
                        j += 6
                        if 0xD800 <= cu1 <= 0xDBFF and 0xDC00 <= cu2 <= 0xDFFF:
                            out.append(chr(0x10000 + ((cu1 - 0xD800) << 10) + (cu2 - 0xDC00)))
                        else:
                            raise LexErr("bad-surrogates", j)
                    else:
                        raise LexErr("bad-surrogates", j)
                else:
                    out.append(chr(cu1))
            else:
                raise LexErr("bad-escape", j)
            raw_start = j
            continue
        j += 1


def lex_verbatim(data, i):
    delim = data[i + 1]
    n = len(data)
    j = i + 2
    out = []
    raw_start = j
    while True:
        if j >= n:
            raise LexErr("unfinished-string", i)
        if data[j] == delim:
            if j + 1 < n and data[j + 1] == delim:
                out.append(lossy(data[raw_start:j + 1]))
                j += 2
                raw_start = j
                continue
            out.append(lossy(data[raw_start:j]))
            return "".join(out), j + 1
        j += 1


def lex_text_block(data, i):
    """data[i:i+3] == b'|||'. Lines are LF-terminated; a CR before the LF belongs to the line's content.
    This implementation's documented extension (ui-test text_block_crlf): a line consisting of CR LF alone is a blank line
    wherever a blank line may stand, and contributes "\r\n"."""
    n = len(data)
    j = i + 3
    chomp = False
    if j < n and data[j] == ord("-"):
        chomp = True
        j += 1
    while j < n and data[j] in b" \t\r":
        j += 1
    if j >= n or data[j] != ord("\n"):
        raise LexErr("textblock-no-newline", j)
    j += 1
    out = []
    # leading blank lines
    while j < n and (data[j] == ord("\n") or data[j:j + 2] == b"\r\n"):
        if data[j] == ord("\n"):
            out.append("\n")
            j += 1
        else:
            out.append("\r\n")
            j += 2
    k = j
    while k < n and data[k] in b" \t":
        k += 1
    prefix = bytes(data[j:k])
    if not prefix:
        raise LexErr("textblock-no-indent", j)
    while True:
        # at the start of a line that begins with the prefix
        j += len(prefix)
        e = data.find(b"\n", j) if isinstance(data, (bytes, bytearray)) else -1
        if e < 0:
            raise LexErr("unfinished-string", i)
        out.append(lossy(data[j:e + 1]))
        j = e + 1
        # blank lines
        while j < n and (data[j] == ord("\n") or data[j:j + 2] == b"\r\n"):
            if data[j] == ord("\n"):
                out.append("\n")
                j += 1
            else:
                out.append("\r\n")
                j += 2
        if data[j:j + len(prefix)] == prefix:
            continue
        k = j
        while k < n and data[k] in b" \t":
            k += 1
        if data[k:k + 3] == b"|||":
            s = "".join(out)
            if chomp:
                s = s[:-1]
            return s, k + 3
        raise LexErr("textblock-bad-termination", j)


def ref_lex(data):
    data = bytes(data)
    n = len(data)
    i = 0
    toks = []
    try:
        while i < n:
            b = data[i]
            ch = chr(b)
            if b in WS:
                j = i
                while j < n and data[j] in WS:
                    j += 1
                toks.append(("ws", None, i, j))
            elif ch in SYMBOLS:
                j = i + 1
                toks.append(("simple", SYMBOLS[ch], i, j))
            elif data[i:i + 2] == b"//" or b == ord("#"):
                e = data.find(b"\n", i)
                j = n if e < 0 else e + 1
                toks.append(("comment", None, i, j))
            elif data[i:i + 2] == b"/*":
                e = data.find(b"*/", i + 2)
                if e < 0:
                    raise LexErr("unfinished-comment", i)
                j = e + 2
                toks.append(("comment", None, i, j))
            elif data[i:i + 3] == b"|||":
                s, j = lex_text_block(data, i)
                toks.append(("textblock", s, i, j))
            elif b in OPCHARS:
                j = lex_operator(data, i)
                t = data[i:j].decode()
                if t in OPERATORS:
                    toks.append(("simple", OPERATORS[t], i, j))
                else:
                    toks.append(("op", t, i, j))
            elif b in DIGITS:
                j = lex_number(data, i)
                toks.append(("number", data[i:j].decode().replace("_", ""), i, j))
            elif b in IDSTART:
                j = i
                while j < n and data[j] in IDCONT:
                    j += 1
                t = data[i:j].decode()
                if t in KEYWORDS:
                    toks.append(("simple", KEYWORDS[t], i, j))
                else:
                    toks.append(("ident", t, i, j))
            elif b in b"\"'":
                s, j = lex_quoted(data, i)
                toks.append(("string", s, i, j))
            elif b == ord("@") and i + 1 < n and data[i + 1] in b"\"'":
                s, j = lex_verbatim(data, i)
                toks.append(("string", s, i, j))
            else:
                raise LexErr("invalid-char", i)
            i = j
    except LexErr as e:
        return ("err", e.label, e.pos)
    toks.append(("eof", None, n, n))
    return ("ok", toks)
