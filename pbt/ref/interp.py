"""Reference interpreter for the Jsonnet core language, written from the language specification.

It evaluates the *tree* form documented in gen/printer.py (not text), lazily, with layer-based objects:
  * thunks are evaluated at most once;
  * an object is an ordered list of layers; `self` is the whole object, `super` the layers to the left of the
    layer the expression was written in, `$` the `self` of the outermost object literal that lexically encloses it;
  * field names are evaluated when the literal is evaluated, in the enclosing environment;
  * `+:` means `if name in super then super[name] + e else e`;
  * visibility: the right-most layer with a non-default visibility decides, all-default means visible;
  * object asserts (of all layers, with the final self) run once, before the first field is read / the object is
    manifested, compared or converted.

evaluate(tree) -> ("value", python JSON-like value) | ("error", kind, message) with kind in explicit | assert | other.
A step budget bounds the work (StepLimit is raised when it is exhausted).
"""
import math


class JError(Exception):
    def __init__(self, kind, message=None):
        super().__init__(message)
        self.kind = kind
        self.message = message


class StepLimit(Exception):
    pass


class Thunk:
    __slots__ = ("expr", "env", "value", "state", "fn")

    def __init__(self, expr=None, env=None, fn=None, value=None, done=False):
        self.expr, self.env, self.fn = expr, env, fn
        self.value = value
        self.state = 2 if done else 0

    def force(self, I):
        if self.state == 2:
            return self.value
        if self.state == 1:
            raise JError("other", "infinite recursion")
        self.state = 1
        try:
            v = self.fn(I) if self.fn is not None else I.eval(self.expr, self.env)
        except BaseException:
            self.state = 0
            raise
        self.value, self.state = v, 2
        self.expr = self.env = self.fn = None
        return v


def done(v):
    return Thunk(value=v, done=True)


class Env:
    __slots__ = ("vars", "parent", "self_obj", "layer", "dollar")

    def __init__(self, vars_, parent=None, self_obj=None, layer=None, dollar=None):
        self.vars, self.parent = vars_, parent
        if parent is not None and self_obj is None:
            self.self_obj, self.layer, self.dollar = parent.self_obj, parent.layer, parent.dollar
        else:
            self.self_obj, self.layer, self.dollar = self_obj, layer, dollar

    def lookup(self, name):
        e = self
        while e is not None:
            if name in e.vars:
                return e.vars[name]
            e = e.parent
        raise JError("static", f"unbound variable {name}")


class Arr:
    __slots__ = ("items",)

    def __init__(self, items):
        self.items = items


class Func:
    __slots__ = ("params", "body", "env", "builtin")

    def __init__(self, params, body, env, builtin=None):
        self.params, self.body, self.env, self.builtin = params, body, env, builtin


class Layer:
    __slots__ = ("fields", "asserts", "locals", "env", "comp")

    def __init__(self, fields, asserts, locals_, env, comp=None):
        self.fields = fields      # name -> (vis, plus, expr, extra_env or None)
        self.asserts = asserts
        self.locals = locals_
        self.env = env
        self.comp = comp


class Obj:
    __slots__ = ("layers", "cache", "asserts_state", "envs")

    def __init__(self, layers):
        self.layers = layers
        self.cache = {}
        self.asserts_state = 0
        self.envs = {}

    def find(self, name, below):
        """Right-most layer index < below that defines name."""
        for i in range(below - 1, -1, -1):
            if name in self.layers[i].fields:
                return i
        return None

    def all_fields(self):
        names = []
        for l in self.layers:
            for n in l.fields:
                if n not in names:
                    names.append(n)
        return names

    def visibility(self, name):
        for l in reversed(self.layers):
            f = l.fields.get(name)
            if f is not None and f[0] != ":":
                return f[0]
        return ":"

    def visible_fields(self):
        return sorted(n for n in self.all_fields() if self.visibility(n) != "::")


TYPE_NAMES = {type(None): "null", bool: "boolean", float: "number", str: "string", Arr: "array", Obj: "object", Func: "function"}


def type_of(v):
    return TYPE_NAMES[type(v)]


def num_to_str(x):
    if x == int(x) and abs(x) < 1e17:
        return str(int(x)) if x != 0 or math.copysign(1, x) > 0 else "-0"
    # the implementation writes the shortest round-trip digits in positional notation, never with an exponent
    # (the notation is not part of the specification; the digits are C06's subject)
    from decimal import Decimal
    r = format(Decimal(repr(x)), "f")
    if "." in r:
        r = r.rstrip("0").rstrip(".")
    return r


class Interp:
    def __init__(self, max_steps=200_000):
        self.steps = 0
        self.max_steps = max_steps
        self.depth = 0

    # -- helpers ----------------------------------------------------------------------------------
    def tick(self):
        self.steps += 1
        if self.steps > self.max_steps:
            raise StepLimit()

    def layer_env(self, obj, i):
        """Environment for the members of layer i of obj: creation env + object locals, bound to self/super/$."""
        key = i
        if key in obj.envs:
            return obj.envs[key]
        layer = obj.layers[i]
        base = layer.env
        dollar = base.dollar if (base is not None and base.dollar is not None) else obj
        env = Env({}, base, self_obj=obj, layer=i, dollar=dollar)
        for b in layer.locals:
            env.vars[b["name"]] = self.bind_thunk(b, env)
        obj.envs[key] = env
        return env

    def bind_thunk(self, b, env):
        if b.get("params") is not None:
            return Thunk(fn=lambda I, b=b, env=env: Func(b["params"], b["value"], env))
        return Thunk(b["value"], env)

    def check_asserts(self, obj):
        if obj.asserts_state != 0:
            return
        obj.asserts_state = 1
        # The specification requires every assertion of every layer to hold and fixes no order among them: when
        # several fail (differently), which failure is reported is an evaluation-order detail, so that case is
        # reported as kind "other" (the caller then compares only "fails").
        failures = []
        try:
            for i, layer in enumerate(obj.layers):
                for a in layer.asserts:
                    env = self.layer_env(obj, i)
                    try:
                        self.run_assert(a, env)
                    except JError as e:
                        if (e.kind, e.message) not in failures:
                            failures.append((e.kind, e.message))
        except BaseException:
            obj.asserts_state = 0
            raise
        if failures:
            obj.asserts_state = 0
            if len(failures) == 1:
                raise JError(*failures[0])
            raise JError("other", f"several assertions fail: {failures!r}")
        obj.asserts_state = 2

    def run_assert(self, a, env):
        c = self.eval(a["cond"], env)
        if not isinstance(c, bool):
            raise JError("other", "assert condition is not a boolean")
        if not c:
            if a.get("msg") is not None:
                raise JError("assert", self.to_string(self.eval(a["msg"], env)))
            raise JError("assert", None)

    def field(self, obj, name, below=None, check=True):
        """Value of field `name` looked up below layer index `below` (None = whole object)."""
        self.tick()
        if check:
            self.check_asserts(obj)
        below = len(obj.layers) if below is None else below
        i = obj.find(name, below)
        if i is None:
            raise JError("other", f"field does not exist: {name}")
        key = (i, name)
        th = obj.cache.get(key)
        if th is None:
            vis, plus, expr, extra = obj.layers[i].fields[name]
            if extra is None:
                env = self.layer_env(obj, i)
            else:
                # object comprehension: the comprehension variables are in scope of the object locals and of the body
                layer = obj.layers[i]
                base = Env(dict(extra), layer.env)
                dollar = layer.env.dollar if (layer.env is not None and layer.env.dollar is not None) else obj
                env = Env({}, base, self_obj=obj, layer=i, dollar=dollar)
                for b in layer.locals:
                    env.vars[b["name"]] = self.bind_thunk(b, env)
            if plus:
                def fn(I, obj=obj, i=i, name=name, expr=expr, env=env):
                    if obj.find(name, i) is not None:
                        return I.binary_values("Add", I.field(obj, name, below=i, check=False), I.eval(expr, env))
                    return I.eval(expr, env)
                th = Thunk(fn=fn)
            else:
                th = Thunk(expr, env)
            obj.cache[key] = th
        return th.force(self)

    # -- evaluation -------------------------------------------------------------------------------
    def eval(self, t, env):
        self.tick()
        self.depth += 1
        if self.depth > 400:
            self.depth -= 1
            raise StepLimit()
        try:
            return getattr(self, "ev_" + t["k"])(t, env)
        finally:
            self.depth -= 1

    def ev_null(self, t, env):
        return None

    def ev_bool(self, t, env):
        return t["v"]

    def ev_number(self, t, env):
        return float(t["text"].replace("_", ""))

    def ev_string(self, t, env):
        return t["v"]

    def ev_textblock(self, t, env):
        return t["v"]

    def ev_paren(self, t, env):
        return self.eval(t["e"], env)

    def ev_ident(self, t, env):
        return env.lookup(t["name"]).force(self)

    def ev_self(self, t, env):
        if env.self_obj is None:
            raise JError("static", "self outside object")
        return env.self_obj

    def ev_dollar(self, t, env):
        if env.dollar is None:
            raise JError("static", "$ outside object")
        return env.dollar

    def ev_array(self, t, env):
        return Arr([Thunk(e, env) for e in t["items"]])

    def ev_local(self, t, env):
        new = Env({}, env)
        for b in t["binds"]:
            new.vars[b["name"]] = self.bind_thunk(b, new)
        return self.eval(t["body"], new)

    def ev_func(self, t, env):
        return Func(t["params"], t["body"], env)

    def ev_if(self, t, env):
        c = self.eval(t["cond"], env)
        if not isinstance(c, bool):
            raise JError("other", "condition is not a boolean")
        if c:
            return self.eval(t["then"], env)
        if t.get("else") is None:
            return None
        return self.eval(t["else"], env)

    def ev_error(self, t, env):
        raise JError("explicit", self.to_string(self.eval(t["e"], env)))

    def ev_assert(self, t, env):
        self.run_assert(t["assert"], env)
        return self.eval(t["body"], env)

    def ev_unary(self, t, env):
        v = self.eval(t["e"], env)
        op = t["op"]
        if op == "LogicNot":
            if not isinstance(v, bool):
                raise JError("other", "! on non-boolean")
            return not v
        if not isinstance(v, float):
            raise JError("other", f"unary {op} on non-number")
        if op == "Minus":
            return -v
        if op == "Plus":
            return v
        return float(~self.safe_int(v))

    def safe_int(self, v):
        if not isinstance(v, float) or abs(v) > 2 ** 53 - 1:
            raise JError("other", "not a safe integer")
        return int(v)

    def ev_binary(self, t, env):
        op = t["op"]
        if op == "LogicAnd" or op == "LogicOr":
            l = self.eval(t["l"], env)
            if not isinstance(l, bool):
                raise JError("other", "logic operator on non-boolean")
            if (op == "LogicAnd" and not l) or (op == "LogicOr" and l):
                return l
            r = self.eval(t["r"], env)
            if not isinstance(r, bool):
                raise JError("other", "logic operator on non-boolean")
            return r
        l = self.eval(t["l"], env)
        r = self.eval(t["r"], env)
        return self.binary_values(op, l, r)

    def binary_values(self, op, l, r):
        self.tick()
        if op == "Add":
            if isinstance(l, float) and isinstance(r, float):
                return self.num(l + r)
            if isinstance(l, str) or isinstance(r, str):
                ls = l if isinstance(l, str) else self.to_string(l)
                rs = r if isinstance(r, str) else self.to_string(r)
                return ls + rs
            if isinstance(l, Arr) and isinstance(r, Arr):
                return Arr(l.items + r.items)
            if isinstance(l, Obj) and isinstance(r, Obj):
                return Obj(l.layers + r.layers)
            raise JError("other", "invalid operands of +")
        if op in ("Sub", "Mul", "Div", "Rem"):
            if not (isinstance(l, float) and isinstance(r, float)):
                raise JError("other", f"invalid operands of {op}")
            if op == "Sub":
                return self.num(l - r)
            if op == "Mul":
                return self.num(l * r)
            if r == 0:
                raise JError("other", "division by zero")
            if op == "Div":
                return self.num(l / r)
            return self.num(math.fmod(l, r))
        if op in ("BitwiseAnd", "BitwiseOr", "BitwiseXor", "Shl", "Shr"):
            if not (isinstance(l, float) and isinstance(r, float)):
                raise JError("other", f"invalid operands of {op}")
            a, b = self.safe_int(l), self.safe_int(r)
            if op == "BitwiseAnd":
                return float(a & b)
            if op == "BitwiseOr":
                return float(a | b)
            if op == "BitwiseXor":
                return float(a ^ b)
            if b < 0:
                raise JError("other", "shift by negative")
            b %= 64
            if op == "Shl":
                res = a << b
                if abs(res) >= 2 ** 63:
                    raise JError("other", "shift overflow")
                return float(res)
            return float(a >> b)
        if op == "Eq":
            return self.equals(l, r)
        if op == "Ne":
            return not self.equals(l, r)
        if op in ("Lt", "Le", "Gt", "Ge"):
            c = self.compare(l, r)
            return {"Lt": c < 0, "Le": c <= 0, "Gt": c > 0, "Ge": c >= 0}[op]
        if op == "In":
            if not isinstance(l, str) or not isinstance(r, Obj):
                raise JError("other", "invalid operands of in")
            return r.find(l, len(r.layers)) is not None
        raise JError("other", f"unknown operator {op}")

    def num(self, x):
        if math.isnan(x) or math.isinf(x):
            raise JError("other", "numeric overflow")
        return x

    def equals(self, a, b):
        self.tick()
        if type(a) is not type(b):
            return False
        if isinstance(a, Func):
            raise JError("other", "cannot compare functions")
        if isinstance(a, Arr):
            if len(a.items) != len(b.items):
                return False
            for x, y in zip(a.items, b.items):
                if not self.equals(x.force(self), y.force(self)):
                    return False
            return True
        if isinstance(a, Obj):
            # std.equals compares the field lists first (no assertion runs for that), then the values field by field
            # (reading a field checks the object's assertions)
            fa, fb = a.visible_fields(), b.visible_fields()
            if fa != fb:
                return False
            for n in fa:
                if not self.equals(self.field(a, n), self.field(b, n)):
                    return False
            return True
        return a == b

    def compare(self, a, b):
        self.tick()
        if isinstance(a, float) and isinstance(b, float):
            return -1 if a < b else (1 if a > b else 0)
        if isinstance(a, str) and isinstance(b, str):
            return -1 if a < b else (1 if a > b else 0)
        if isinstance(a, Arr) and isinstance(b, Arr):
            for x, y in zip(a.items, b.items):
                c = self.compare(x.force(self), y.force(self))
                if c:
                    return c
            return -1 if len(a.items) < len(b.items) else (1 if len(a.items) > len(b.items) else 0)
        raise JError("other", "values cannot be ordered")

    def ev_insuper(self, t, env):
        name = self.eval(t["e"], env)
        if env.self_obj is None:
            raise JError("static", "super outside object")
        if not isinstance(name, str):
            raise JError("other", "in super: not a string")
        return env.self_obj.find(name, env.layer) is not None

    def ev_superfield(self, t, env):
        return self.super_get(env, t["name"])

    def ev_superindex(self, t, env):
        name = self.eval(t["index"], env)
        if not isinstance(name, str):
            raise JError("other", "super index is not a string")
        return self.super_get(env, name)

    def super_get(self, env, name):
        if env.self_obj is None:
            raise JError("static", "super outside object")
        if env.layer == 0:
            raise JError("other", "super without super object")
        return self.field(env.self_obj, name, below=env.layer)

    def ev_field(self, t, env):
        o = self.eval(t["e"], env)
        if not isinstance(o, Obj):
            raise JError("other", "field of non-object")
        return self.field(o, t["name"])

    def ev_index(self, t, env):
        o = self.eval(t["e"], env)
        i = self.eval(t["index"], env)
        if isinstance(o, Obj):
            if not isinstance(i, str):
                raise JError("other", "object index is not a string")
            return self.field(o, i)
        if isinstance(o, (Arr, str)):
            if not isinstance(i, float):
                raise JError("other", "index is not a number")
            if i != int(i) or i < 0:
                raise JError("other", "invalid index")
            n = len(o.items) if isinstance(o, Arr) else len(o)
            if int(i) >= n:
                raise JError("other", "index out of range")
            return o.items[int(i)].force(self) if isinstance(o, Arr) else o[int(i)]
        raise JError("other", "value cannot be indexed")

    def ev_slice(self, t, env):
        o = self.eval(t["e"], env)
        parts = []
        for k in ("start", "end", "step"):
            v = None if t.get(k) is None else self.eval(t[k], env)
            if v is not None and (not isinstance(v, float) or v != int(v)):
                raise JError("other", "slice bound is not an integer")
            parts.append(None if v is None else int(v))
        if not isinstance(o, (Arr, str)):
            raise JError("other", "value cannot be sliced")
        a, b, c = parts
        if c is not None and c <= 0:
            raise JError("other", "invalid slice step")
        if isinstance(o, str):
            return o[a:b:c]
        return Arr(o.items[a:b:c])

    def ev_call(self, t, env):
        f = self.eval(t["f"], env)
        if not isinstance(f, Func):
            raise JError("other", "callee is not a function")
        pos = [Thunk(a["e"], env) for a in t["args"] if a.get("name") is None]
        named = [(a["name"], Thunk(a["e"], env)) for a in t["args"] if a.get("name") is not None]
        return self.call(f, pos, named)

    def call(self, f, pos, named):
        self.tick()
        if f.builtin is not None:
            if named:
                raise JError("other", "named arguments to builtin")
            return f.builtin(self, pos)
        params = f.params
        if len(pos) > len(params):
            raise JError("other", "too many arguments")
        new = Env({}, f.env)
        for p, th in zip(params, pos):
            new.vars[p["name"]] = th
        names = [p["name"] for p in params]
        for n, th in named:
            if n not in names:
                raise JError("other", f"unknown parameter {n}")
            if n in new.vars:
                raise JError("other", f"parameter {n} bound twice")
            new.vars[n] = th
        for p in params:
            if p["name"] not in new.vars:
                if p.get("default") is None:
                    raise JError("other", f"parameter {p['name']} not bound")
                new.vars[p["name"]] = Thunk(p["default"], new)
        return self.eval(f.body, new)

    def ev_arraycomp(self, t, env):
        out = []
        self.comp(t["spec"], 0, env, lambda e: out.append(Thunk(t["body"], e)))
        return Arr(out)

    def comp(self, spec, i, env, emit):
        self.tick()
        if i == len(spec):
            emit(env)
            return
        s = spec[i]
        if s["k"] == "for":
            arr = self.eval(s["inner"], env)
            if not isinstance(arr, Arr):
                raise JError("other", "for: not an array")
            for item in arr.items:
                self.comp(spec, i + 1, Env({s["var"]: item}, env), emit)
        else:
            c = self.eval(s["cond"], env)
            if not isinstance(c, bool):
                raise JError("other", "if: not a boolean")
            if c:
                self.comp(spec, i + 1, env, emit)

    def ev_object(self, t, env):
        return Obj([self.make_layer(t["inside"], env)])

    def ev_objext(self, t, env):
        # `e { ... }` is sugar for `e + { ... }`
        base = self.eval(t["e"], env)
        return self.binary_values("Add", base, Obj([self.make_layer(t["inside"], env)]))

    def make_layer(self, inside, env):
        if inside["k"] == "members":
            fields, asserts, locals_ = {}, [], []
            for m in inside["members"]:
                if m["k"] == "local":
                    locals_.append(m["bind"])
                elif m["k"] == "assert":
                    asserts.append(m["assert"])
                else:
                    n = m["name"]
                    if n["k"] == "expr":
                        name = self.eval(n["expr"], env)
                        if name is None:
                            continue
                        if not isinstance(name, str):
                            raise JError("other", "field name is not a string")
                    else:
                        name = n["name"]
                    if name in fields:
                        raise JError("other", f"duplicate field {name}")
                    if m["k"] == "method":
                        expr = {"k": "func", "params": m["params"], "body": m["value"]}
                        fields[name] = (m["vis"], False, expr, None)
                    else:
                        fields[name] = (m["vis"], m["plus"], m["value"], None)
            return Layer(fields, asserts, locals_, env)
        # comprehension
        fields = {}
        locals_ = list(inside["locals1"]) + list(inside["locals2"])

        def emit(e):
            name = self.eval(inside["name"], e)
            if name is None:
                return
            if not isinstance(name, str):
                raise JError("other", "field name is not a string")
            if name in fields:
                raise JError("other", f"duplicate field {name}")
            extra = {}
            x = e
            while x is not env and x is not None:
                for k, v in x.vars.items():
                    extra.setdefault(k, v)
                x = x.parent
            fields[name] = (":", inside["plus"], inside["body"], extra)

        self.comp(inside["spec"], 0, env, emit)
        return Layer(fields, [], locals_, env)

    def ev_import(self, t, env):
        raise JError("other", "import not supported in the reference")

    ev_importstr = ev_importbin = ev_import

    # -- conversion -------------------------------------------------------------------------------
    def to_string(self, v):
        if isinstance(v, str):
            return v
        return self.json(v, top=True)

    def json(self, v, top=False):
        """Single-line JSON as std.toString prints it."""
        self.tick()
        if v is None:
            return "null"
        if v is True:
            return "true"
        if v is False:
            return "false"
        if isinstance(v, float):
            return num_to_str(v)
        if isinstance(v, str):
            import json as _json
            return _json.dumps(v, ensure_ascii=False)
        if isinstance(v, Arr):
            if not v.items:
                return "[ ]"
            return "[" + ", ".join(self.json(x.force(self)) for x in v.items) + "]"
        if isinstance(v, Obj):
            self.check_asserts(v)
            names = v.visible_fields()
            if not names:
                return "{ }"
            import json as _json
            return "{" + ", ".join(_json.dumps(n, ensure_ascii=False) + ": " + self.json(self.field(v, n)) for n in names) + "}"
        raise JError("other", "cannot manifest function")

    def manifest(self, v):
        """Python JSON-like value (dict/list/str/float/bool/None)."""
        self.tick()
        if isinstance(v, Arr):
            return [self.manifest(x.force(self)) for x in v.items]
        if isinstance(v, Obj):
            self.check_asserts(v)
            return {n: self.manifest(self.field(v, n)) for n in v.visible_fields()}
        if isinstance(v, Func):
            raise JError("other", "cannot manifest function")
        return v


# -- the whitelisted std helpers ---------------------------------------------------------------------

def _std(I):
    def arg(pos, i):
        return pos[i].force(I)

    def length(I, pos):
        v = arg(pos, 0)
        if isinstance(v, str):
            return float(len(v))
        if isinstance(v, Arr):
            return float(len(v.items))
        if isinstance(v, Obj):
            return float(len(v.visible_fields()))
        if isinstance(v, Func):
            return float(len(v.params)) if v.builtin is None else 1.0
        raise JError("other", "length of wrong type")

    def type_(I, pos):
        return type_of(arg(pos, 0))

    def has(I, pos, hidden):
        o, n = arg(pos, 0), arg(pos, 1)
        if not isinstance(o, Obj) or not isinstance(n, str):
            raise JError("other", "objectHas arguments")
        if o.find(n, len(o.layers)) is None:
            return False
        return hidden or o.visibility(n) != "::"

    def fields(I, pos, hidden):
        o = arg(pos, 0)
        if not isinstance(o, Obj):
            raise JError("other", "objectFields argument")
        names = sorted(o.all_fields()) if hidden else o.visible_fields()
        return Arr([done(n) for n in names])

    def make_array(I, pos):
        n, f = arg(pos, 0), arg(pos, 1)
        if not isinstance(n, float) or n != int(n) or n < 0 or not isinstance(f, Func):
            raise JError("other", "makeArray arguments")
        return Arr([Thunk(fn=lambda I, i=i: I.call(f, [done(float(i))], [])) for i in range(int(n))])

    def to_string(I, pos):
        return I.to_string(arg(pos, 0))

    def b(fn, n):
        def wrapped(I, pos):
            if len(pos) != n:
                raise JError("other", "wrong number of arguments")
            return fn(I, pos)
        return Func([], None, None, builtin=wrapped)

    fields_map = {
        "length": b(length, 1), "type": b(type_, 1),
        "objectHas": b(lambda I, p: has(I, p, False), 2), "objectHasAll": b(lambda I, p: has(I, p, True), 2),
        "objectFields": b(lambda I, p: fields(I, p, False), 1), "objectFieldsAll": b(lambda I, p: fields(I, p, True), 1),
        "makeArray": b(make_array, 2), "toString": b(to_string, 1),
    }
    layer = Layer({n: ("::", False, None, None) for n in fields_map}, [], [], None)
    o = Obj([layer])
    for n, f in fields_map.items():
        o.cache[(0, n)] = done(f)
    o.asserts_state = 2
    return o


def evaluate(tree, max_steps=200_000):
    """Returns ("value", v) | ("error", kind, message) | ("limit",)."""
    I = Interp(max_steps)
    env = Env({"std": done(_std(I))})
    import sys
    old = sys.getrecursionlimit()
    sys.setrecursionlimit(20000)
    try:
        v = I.eval(tree, env)
        return ("value", I.manifest(v))
    except JError as e:
        return ("error", e.kind, e.message)
    except (StepLimit, RecursionError):
        return ("limit",)
    finally:
        sys.setrecursionlimit(old)
