"""Type-directed, scope-tracking generator of closed, terminating core-language programs (tree form of gen/printer.py).

Types: "int" (small integers), "num", "bool", "str", ("arr", elem, n) with known length, ("obj", {name: type}) with the
fields known to exist, ("func", params, result) where params = [(name, type, has_default)].
Names come from a small pool so that shadowing and field collisions are the norm. Recursion appears only through
bounded templates. A "may fail" budget limits explicit error / failing assert sites to one per program.
"""
from hypothesis import strategies as st

VARS = ["a", "b", "c", "x", "y", "f", "g"]
FIELDS = ["a", "b", "c", "k"]
STRS = ["", "a", "b", "xy", "k", "é"]


def num_lit(x):
    if x < 0:
        return {"k": "unary", "op": "Minus", "e": {"k": "number", "text": repr(-x) if x != int(x) else str(int(-x))}}
    return {"k": "number", "text": repr(x) if x != int(x) else str(int(x))}


def str_lit(s):
    return {"k": "string", "v": s}


def ident(n):
    return {"k": "ident", "name": n}


def std_call(name, *args):
    return {"k": "call", "f": {"k": "field", "e": ident("std"), "name": name}, "args": [{"name": None, "e": a} for a in args], "tailstrict": False}


class Ctx:
    def __init__(self, vars_=None, self_fields=None, super_fields=None, in_object=False, depth=0, fail=None):
        self.vars = dict(vars_ or {})
        self.self_fields = self_fields    # dict name -> type, or None outside objects
        self.super_fields = super_fields  # dict name -> type known to exist in super, or None
        self.in_object = in_object
        self.depth = depth
        self.fail = fail if fail is not None else {"left": 1}

    def child(self, **kw):
        c = Ctx(self.vars, self.self_fields, self.super_fields, self.in_object, self.depth + 1, self.fail)
        for k, v in kw.items():
            setattr(c, k, v)
        return c

    def with_var(self, name, ty):
        c = self.child()
        c.vars[name] = ty
        return c


class Gen:
    """All choices go through `draw` (Hypothesis)."""

    def __init__(self, draw, max_depth=4, ill_typed_rate=0):
        self.draw = draw
        self.max_depth = max_depth
        self.ill = ill_typed_rate
        self.features = set()

    def pick(self, n):
        return self.draw(st.integers(0, n - 1))

    def choice(self, xs):
        return xs[self.pick(len(xs))]

    def feature(self, f):
        self.features.add(f)

    # -- types ------------------------------------------------------------------------------------
    def rand_type(self, depth=0):
        k = self.pick(8 if depth < 2 else 4)
        if k == 0:
            return "int"
        if k == 1:
            return "num"
        if k == 2:
            return "bool"
        if k == 3:
            return "str"
        if k in (4, 5):
            return ("arr", self.choice(["int", "str", "num"]), self.pick(4))
        fields = {}
        for _ in range(self.pick(3) + 1):
            fields[self.choice(FIELDS)] = self.choice(["int", "str", "bool", "num"])
        return ("obj", fields)

    def vars_of(self, ctx, ty):
        return [n for n, t in ctx.vars.items() if self.subtype(t, ty)]

    @staticmethod
    def subtype(t, want):
        if t == want:
            return True
        if want == "num" and t == "int":
            return True
        if isinstance(t, tuple) and isinstance(want, tuple) and t[0] == want[0] == "arr":
            return t[2] == want[2] and Gen.subtype(t[1], want[1])
        if isinstance(t, tuple) and isinstance(want, tuple) and t[0] == want[0] == "obj":
            return all(k in t[1] and Gen.subtype(t[1][k], v) for k, v in want[1].items())
        return False

    # -- expressions ------------------------------------------------------------------------------
    def expr(self, ty, ctx):
        if ctx.depth >= self.max_depth:
            return self.leaf(ty, ctx)
        if self.ill and ctx.depth > 0 and self.pick(self.ill) == 1:
            # an ill-typed sub-term (it may or may not be evaluated)
            other = self.choice([t for t in ["int", "bool", "str"] if t != ty] + [("arr", "int", 1)])
            self.feature("ill-typed")
            return self.expr(other, ctx.child())
        prods = self.productions(ty, ctx)
        name = self.choice(prods)
        return getattr(self, "p_" + name)(ty, ctx.child())

    def productions(self, ty, ctx):
        p = ["leaf", "leaf", "if", "local", "call", "localfunc"]
        if self.vars_of(ctx, ty):
            p += ["var", "var"]
        if ctx.self_fields and any(self.subtype(t, ty) for t in ctx.self_fields.values()):
            p += ["selffield"] * 4
        if ctx.super_fields and any(self.subtype(t, ty) for t in ctx.super_fields.values()):
            p += ["superfield"] * 4
        if ty in ("int", "num"):
            p += ["arith", "arith", "index", "objfield", "length"]
            if ty == "int":
                p += ["bitwise"]
        elif ty == "bool":
            p += ["compare", "compare", "logic", "equals", "in", "not", "objhas"]
        elif ty == "str":
            p += ["concat", "concat", "coerce", "index", "objfield", "typeof", "strslice"]
        elif ty[0] == "arr":
            p += ["arraylit", "arraycomp", "arrayconcat", "arrayslice", "makearray"]
        elif ty[0] == "obj":
            p += ["objlit", "objlit", "objplus", "objplus", "objcomp", "objext", "objreuse"]
        if ctx.fail["left"] > 0 and self.pick(3) == 0:
            p += ["error", "assertexpr"]
        return p

    def leaf(self, ty, ctx):
        vs = self.vars_of(ctx, ty)
        if vs and self.pick(2):
            return ident(self.choice(vs))
        if ty == "int":
            return num_lit(float(self.pick(21) - 6))
        if ty == "num":
            return num_lit(self.choice([0.5, 1.5, -2.5, 0.125, 3.0, 10.0, -1.0, 2.0, 0.25]))
        if ty == "bool":
            return {"k": "bool", "v": bool(self.pick(2))}
        if ty == "str":
            return str_lit(self.choice(STRS))
        if ty[0] == "arr":
            return {"k": "array", "items": [self.leaf(ty[1], ctx) for _ in range(ty[2])]}
        if ty[0] == "obj":
            return {"k": "object", "inside": {"k": "members", "members": [
                {"k": "field", "name": {"k": "ident", "name": n}, "plus": False, "vis": ":", "value": self.leaf(t, ctx)} for n, t in ty[1].items()]}}
        if ty[0] == "func":
            return self.func_value(ty, ctx)
        raise ValueError(ty)

    def p_leaf(self, ty, ctx):
        return self.leaf(ty, ctx)

    def p_var(self, ty, ctx):
        return ident(self.choice(self.vars_of(ctx, ty)))

    def p_if(self, ty, ctx):
        self.feature("if")
        t = {"k": "if", "cond": self.expr("bool", ctx), "then": self.expr(ty, ctx), "else": self.expr(ty, ctx)}
        return t

    def p_local(self, ty, ctx):
        n = self.pick(2) + 1
        names = []
        c2 = ctx.child()
        binds = []
        tys = []
        for _ in range(n):
            name = self.choice([v for v in VARS if v not in names])
            names.append(name)
            tys.append(self.rand_type(ctx.depth))
        # mutually visible bindings: later names may be used by earlier ones only through functions; keep it acyclic:
        # binding i may refer to bindings j < i
        for name, t in zip(names, tys):
            binds.append({"name": name, "params": None, "value": self.expr(t, c2)})
            c2 = c2.with_var(name, t)
        self.feature("local")
        return {"k": "local", "binds": binds, "body": self.expr(ty, c2)}

    def func_value(self, ty, ctx):
        _, params, res = ty
        pnames = [p[0] for p in params]
        outer = {k: v for k, v in ctx.vars.items() if k not in pnames}
        body_ctx = ctx.child()
        body_ctx.vars = dict(outer)
        for name, t, _ in params:
            body_ctx.vars[name] = t
        ps = []
        for name, t, has_default in params:
            d = None
            if has_default:
                # a default may refer to the required parameters (all parameters form one scope)
                dctx = ctx.child()
                dctx.vars = dict(outer)
                for n2, t2, hd2 in params:
                    if not hd2:
                        dctx.vars[n2] = t2
                d = self.expr(t, dctx)
                self.feature("default-arg")
            ps.append({"name": name, "default": d})
        return {"k": "func", "params": ps, "body": self.expr(res, body_ctx)}

    def rand_func_type(self, res, ctx):
        n = self.pick(3) + (0 if self.pick(4) else 0)
        names = []
        params = []
        for i in range(n):
            name = self.choice([v for v in VARS if v not in names])
            names.append(name)
            params.append((name, self.choice(["int", "str", "bool", "num", ("arr", "int", 2)]), bool(i > 0 and self.pick(2))))
        # parameters with defaults come last
        params.sort(key=lambda p: p[2])
        return ("func", params, res)

    def call_args(self, fty, ctx):
        """Positional arguments form a prefix; the rest is passed by name (any order) or left to its default."""
        _, params, _ = fty
        k = self.pick(len(params) + 1)
        args = [{"name": None, "e": self.expr(t, ctx)} for _, t, _ in params[:k]]
        named = []
        for name, t, has_default in params[k:]:
            if has_default and self.pick(2):
                continue
            named.append({"name": name, "e": self.expr(t, ctx)})
            self.feature("named-arg")
        if len(named) > 1 and self.pick(2):
            named.reverse()
        return args + named

    def p_call(self, ty, ctx):
        fs = [n for n, t in ctx.vars.items() if isinstance(t, tuple) and t[0] == "func" and self.subtype(t[2], ty)]
        if not fs:
            return self.p_localfunc(ty, ctx)
        f = self.choice(fs)
        self.feature("call")
        return {"k": "call", "f": ident(f), "args": self.call_args(ctx.vars[f], ctx), "tailstrict": False}

    def p_localfunc(self, ty, ctx):
        fty = self.rand_func_type(ty, ctx)
        name = self.choice(["f", "g"])
        self.feature("function")
        c2 = ctx.with_var(name, fty)
        kind = self.pick(4)
        fv = self.func_value(fty, ctx)
        if kind == 0 and ty in ("int", "num"):
            # bounded recursion template: local f(n) = if n <= 0 then B else S(f(n - 1))
            self.feature("recursion")
            base = self.expr(ty, ctx)
            n = ident("n")
            step = {"k": "binary", "op": "Add", "l": {"k": "call", "f": ident(name), "args": [{"name": None, "e": {"k": "binary", "op": "Sub", "l": n, "r": num_lit(1.0)}}], "tailstrict": False},
                    "r": self.expr("int", ctx.with_var("n", "int"))}
            body = {"k": "if", "cond": {"k": "binary", "op": "Le", "l": n, "r": num_lit(0.0)}, "then": base, "else": step}
            bind = {"name": name, "params": [{"name": "n", "default": None}], "value": body}
            call = {"k": "call", "f": ident(name), "args": [{"name": None, "e": num_lit(float(self.pick(6)))}], "tailstrict": False}
            return {"k": "local", "binds": [bind], "body": call}
        if kind == 1:
            # sugar: local f(params) = body
            bind = {"name": name, "params": fv["params"], "value": fv["body"]}
        else:
            bind = {"name": name, "params": None, "value": fv}
        body = {"k": "call", "f": ident(name), "args": self.call_args(fty, c2), "tailstrict": False}
        if self.pick(3) == 0:
            # use it twice / pass it on
            body = {"k": "local", "binds": [{"name": "g" if name == "f" else "f", "params": None, "value": ident(name)}], "body": body}
        return {"k": "local", "binds": [bind], "body": body}

    def p_arith(self, ty, ctx):
        ops = ["Add", "Sub", "Mul"] if ty == "int" else ["Add", "Sub", "Mul", "Div", "Rem"]
        op = self.choice(ops)
        self.feature("arith")
        l = self.expr(ty if ty == "int" else self.choice(["int", "num"]), ctx)
        if op in ("Div", "Rem"):
            r = num_lit(self.choice([2.0, 4.0, 8.0, -2.0, 0.5]))
        else:
            r = self.expr(ty if ty == "int" else self.choice(["int", "num"]), ctx)
        if self.pick(6) == 0:
            return {"k": "unary", "op": self.choice(["Minus", "Plus"]), "e": {"k": "binary", "op": op, "l": l, "r": r}}
        return {"k": "binary", "op": op, "l": l, "r": r}

    def p_bitwise(self, ty, ctx):
        self.feature("bitwise")
        op = self.choice(["BitwiseAnd", "BitwiseOr", "BitwiseXor", "Shl", "Shr", "Not"])
        if op == "Not":
            return {"k": "unary", "op": "BitwiseNot", "e": self.expr("int", ctx)}
        if op in ("Shl", "Shr"):
            return {"k": "binary", "op": op, "l": num_lit(float(self.pick(200) - 50)), "r": num_lit(float(self.pick(21)))}
        return {"k": "binary", "op": op, "l": self.expr("int", ctx), "r": self.expr("int", ctx)}

    def p_compare(self, ty, ctx):
        t = self.choice(["int", "num", "str", ("arr", "int", 2)])
        self.feature("compare")
        return {"k": "binary", "op": self.choice(["Lt", "Le", "Gt", "Ge"]), "l": self.expr(t, ctx), "r": self.expr(t, ctx)}

    def p_equals(self, ty, ctx):
        t = self.rand_type(ctx.depth)
        self.feature("equals")
        return {"k": "binary", "op": self.choice(["Eq", "Ne"]), "l": self.expr(t, ctx), "r": self.expr(t, ctx)}

    def p_logic(self, ty, ctx):
        self.feature("logic")
        return {"k": "binary", "op": self.choice(["LogicAnd", "LogicOr"]), "l": self.expr("bool", ctx), "r": self.expr("bool", ctx)}

    def p_not(self, ty, ctx):
        return {"k": "unary", "op": "LogicNot", "e": self.expr("bool", ctx)}

    def p_in(self, ty, ctx):
        self.feature("in")
        if ctx.super_fields is not None and self.pick(2):
            self.feature("in-super")
            return {"k": "insuper", "e": str_lit(self.choice(FIELDS))}
        oty = ("obj", {self.choice(FIELDS): "int"})
        return {"k": "binary", "op": "In", "l": str_lit(self.choice(FIELDS)), "r": self.expr(oty, ctx)}

    def p_objhas(self, ty, ctx):
        oty = ("obj", {self.choice(FIELDS): "int"})
        return std_call(self.choice(["objectHas", "objectHasAll"]), self.expr(oty, ctx), str_lit(self.choice(FIELDS)))

    def p_concat(self, ty, ctx):
        self.feature("concat")
        return {"k": "binary", "op": "Add", "l": self.expr("str", ctx), "r": self.expr("str", ctx)}

    def p_coerce(self, ty, ctx):
        self.feature("coerce")
        other = self.expr(self.choice(["int", "bool", ("arr", "int", 2), ("obj", {"a": "int"}), "str"]), ctx)
        s = self.expr("str", ctx)
        if self.pick(2):
            return {"k": "binary", "op": "Add", "l": s, "r": other}
        return {"k": "binary", "op": "Add", "l": other, "r": s} if self.pick(2) else std_call("toString", other)

    def p_typeof(self, ty, ctx):
        return std_call("type", self.expr(self.rand_type(ctx.depth), ctx))

    def p_strslice(self, ty, ctx):
        self.feature("slice")
        return {"k": "slice", "e": self.expr("str", ctx), "start": num_lit(float(self.pick(3))) if self.pick(2) else None,
                "end": num_lit(float(self.pick(4))) if self.pick(2) else None, "step": num_lit(float(self.pick(2) + 1)) if self.pick(3) == 0 else None}

    def p_length(self, ty, ctx):
        t = self.choice([("arr", "int", self.pick(4)), "str", ("obj", {"a": "int"})])
        return std_call("length", self.expr(t, ctx))

    def p_index(self, ty, ctx):
        if ty == "str":
            aty = ("arr", "str", self.pick(3) + 1)
        else:
            aty = ("arr", ty, self.pick(3) + 1)
        self.feature("index")
        return {"k": "index", "e": self.expr(aty, ctx), "index": num_lit(float(self.pick(aty[2])))}

    def p_objfield(self, ty, ctx):
        name = self.choice(FIELDS)
        oty = ("obj", {name: ty})
        self.feature("field")
        o = self.expr(oty, ctx)
        if self.pick(3) == 0:
            return {"k": "index", "e": o, "index": str_lit(name)}
        return {"k": "field", "e": o, "name": name}

    def p_selffield(self, ty, ctx):
        names = [n for n, t in ctx.self_fields.items() if self.subtype(t, ty)]
        name = self.choice(names)
        self.feature("self")
        base = {"k": "dollar"} if (self.pick(4) == 0 and ctx.in_object == "top") else {"k": "self"}
        if base["k"] == "dollar":
            self.feature("dollar")
        if self.pick(4) == 0:
            return {"k": "index", "e": base, "index": str_lit(name)}
        return {"k": "field", "e": base, "name": name}

    def p_superfield(self, ty, ctx):
        names = [n for n, t in ctx.super_fields.items() if self.subtype(t, ty)]
        name = self.choice(names)
        self.feature("super")
        if self.pick(3) == 0:
            return {"k": "superindex", "index": str_lit(name)}
        return {"k": "superfield", "name": name}

    def p_arraylit(self, ty, ctx):
        return {"k": "array", "items": [self.expr(ty[1], ctx) for _ in range(ty[2])]}

    def p_arraycomp(self, ty, ctx):
        # [body for x in arr(n)] has length n; nested clauses multiply, conditions would make the length unknown
        self.feature("comprehension")
        n = ty[2]
        src_ty = ("arr", self.choice(["int", "str"]), n)
        var = self.choice(VARS)
        spec = [{"k": "for", "var": var, "inner": self.expr(src_ty, ctx)}]
        c2 = ctx.with_var(var, src_ty[1])
        if self.pick(3) == 0:
            var2 = self.choice([v for v in VARS if v != var])
            spec.append({"k": "for", "var": var2, "inner": {"k": "array", "items": [self.expr("int", c2)]}})
            c2 = c2.with_var(var2, "int")
            self.feature("nested-comprehension")
        if self.pick(4) == 0:
            spec.append({"k": "if", "cond": {"k": "bool", "v": True} if self.pick(2) else {"k": "binary", "op": "Eq", "l": ident(var), "r": ident(var)}})
        return {"k": "arraycomp", "body": self.expr(ty[1], c2), "spec": spec}

    def p_arrayconcat(self, ty, ctx):
        n = ty[2]
        k = self.pick(n + 1)
        return {"k": "binary", "op": "Add", "l": self.expr(("arr", ty[1], k), ctx), "r": self.expr(("arr", ty[1], n - k), ctx)}

    def p_arrayslice(self, ty, ctx):
        n = ty[2]
        extra = self.pick(3)
        src = self.expr(("arr", ty[1], n + extra), ctx)
        start = self.pick(extra + 1)
        self.feature("slice")
        return {"k": "slice", "e": src, "start": num_lit(float(start)) if start or self.pick(2) else None, "end": num_lit(float(start + n)), "step": None}

    def p_makearray(self, ty, ctx):
        var = self.choice(VARS)
        f = {"k": "func", "params": [{"name": var, "default": None}], "body": self.expr(ty[1], ctx.with_var(var, "int"))}
        return std_call("makeArray", num_lit(float(ty[2])), f)

    # -- objects ----------------------------------------------------------------------------------
    def obj_members(self, fields, ctx, super_fields=None, extra_hidden=True):
        """Members of one object literal defining `fields` (name -> type); returns the members list."""
        members = []
        in_object = "top" if not ctx.in_object else "nested"
        selfinfo = dict(fields)
        if super_fields:
            for k, v in super_fields.items():
                selfinfo.setdefault(k, v)
        c2 = ctx.child(self_fields=selfinfo, super_fields=super_fields, in_object=in_object)
        # object locals
        if self.pick(3) == 0:
            ln = self.choice(VARS)
            lt = self.choice(["int", "str"])
            members.append({"k": "local", "bind": {"name": ln, "params": None, "value": self.expr(lt, c2.child(self_fields=None, super_fields=None))}})
            c2 = c2.with_var(ln, lt)
            self.feature("object-local")
        names = list(fields)
        for i, n in enumerate(names):
            t = fields[n]
            # acyclic by construction: through `self` a field reads only fields with a smaller name (in any layer),
            # through `super` only fields with a smaller or the same name
            visible_self = {k: v for k, v in selfinfo.items() if k < n}
            visible_super = {k: v for k, v in (super_fields or {}).items() if k <= n} or None
            cf = c2.child(self_fields=visible_self or None, super_fields=visible_super)
            plus = False
            vis = self.choice([":", ":", ":", "::", ":::"])
            if vis != ":":
                self.feature("visibility")
            if super_fields and n in super_fields and t in ("int", "num", "str") and self.pick(2):
                plus = True
                self.feature("plus-field")
            kind = self.pick(6)
            if kind == 0 and not plus:
                nm = {"k": "string", "name": n}
            elif kind == 1 and not plus:
                nm = {"k": "expr", "expr": str_lit(n) if self.pick(2) else {"k": "binary", "op": "Add", "l": str_lit(n[:1]), "r": str_lit(n[1:])}}
                self.feature("computed-name")
            else:
                nm = {"k": "ident", "name": n}
            members.append({"k": "field", "name": nm, "plus": plus, "vis": vis, "value": self.expr(t, cf)})
        if self.pick(4) == 0:
            # a (true) assert, or a failing one when the budget allows
            self.feature("assert")
            cond = {"k": "bool", "v": True}
            msg = None
            if names and fields[names[0]] == "int" and self.pick(2):
                cond = {"k": "binary", "op": "Ge", "l": {"k": "field", "e": {"k": "self"}, "name": names[0]}, "r": num_lit(-1e9)}
            if ctx.fail["left"] > 0 and self.pick(4) == 0:
                ctx.fail["left"] -= 1
                cond = {"k": "bool", "v": False}
                msg = str_lit("assert-" + self.choice(STRS)) if self.pick(2) else None
                self.feature("failing-assert")
            members.insert(self.pick(len(members) + 1), {"k": "assert", "assert": {"cond": cond, "msg": msg}})
        if extra_hidden and self.pick(4) == 0:
            hn = "h" + self.choice(FIELDS)
            members.append({"k": "field", "name": {"k": "ident", "name": hn}, "plus": False, "vis": "::", "value": self.expr("int", c2.child(self_fields=None, super_fields=None))})
        if self.pick(6) == 0:
            members.append({"k": "field", "name": {"k": "expr", "expr": {"k": "null"}}, "plus": False, "vis": ":", "value": num_lit(1.0)})
            self.feature("null-name")
        return members

    def p_objlit(self, ty, ctx):
        self.feature("object")
        fields = dict(ty[1])
        if self.pick(3) == 0:
            fields.setdefault(self.choice(FIELDS), self.choice(["int", "str"]))
        return {"k": "object", "inside": {"k": "members", "members": self.obj_members(fields, ctx)}}

    def p_objplus(self, ty, ctx):
        """A chain of 2..4 layers in a random bracketing; overriding fields keep their types."""
        self.feature("inheritance")
        want = dict(ty[1])
        nlayers = self.pick(3) + 2
        # distribute the wanted fields over layers; later layers may override earlier fields with the same type
        layer_fields = [dict() for _ in range(nlayers)]
        for n, t in want.items():
            layer_fields[self.pick(nlayers)][n] = t
        known = {}
        exprs = []
        for i in range(nlayers):
            lf = layer_fields[i]
            for n, t in list(known.items()):
                if self.pick(3) == 0:
                    lf.setdefault(n, t)
                    self.feature("override")
            if self.pick(3) == 0:
                lf.setdefault(self.choice(FIELDS), "int")
            # keep types consistent with what is already known
            for n in list(lf):
                if n in known:
                    lf[n] = known[n]
                elif n in want:
                    lf[n] = want[n]
            members = self.obj_members(lf, ctx, super_fields=dict(known) if known else None)
            exprs.append({"k": "object", "inside": {"k": "members", "members": members}})
            known.update(lf)
        # random bracketing
        while len(exprs) > 1:
            i = self.pick(len(exprs) - 1)
            exprs[i:i + 2] = [{"k": "binary", "op": "Add", "l": exprs[i], "r": exprs[i + 1]}]
        return exprs[0]

    def p_objreuse(self, ty, ctx):
        """Objects bound to locals, each used on its own first and then combined (late binding of asserts and self)."""
        self.feature("object-reuse")
        self.feature("inheritance")
        n = self.choice([k for k in FIELDS])
        fields = dict(ty[1])
        fields[n] = "int"
        a_members = self.obj_members(fields, ctx, extra_hidden=False)
        lo = self.pick(5)
        breaks = ctx.fail["left"] > 0 and self.pick(2) == 0
        if breaks:
            ctx.fail["left"] -= 1
            self.feature("assert-broken-by-override")
        # the assert holds for `a` alone; the override in `b` may break it
        for m in a_members:
            if m["k"] == "field" and m["name"].get("name") == n:
                m["value"] = num_lit(float(lo + 1))
                m["plus"] = False
        a_members.append({"k": "assert", "assert": {"cond": {"k": "binary", "op": "Gt", "l": {"k": "field", "e": {"k": "self"}, "name": n}, "r": num_lit(float(lo))},
                                                    "msg": str_lit("must exceed %d" % lo) if self.pick(2) else None}})
        b_members = [{"k": "field", "name": {"k": "ident", "name": n}, "plus": bool(self.pick(2)), "vis": ":",
                      "value": num_lit(float(-20 if breaks else 3))}]
        if b_members[0]["plus"] and not breaks:
            b_members[0]["value"] = num_lit(2.0)
        va, vb = "a", "b"
        obj_a = {"k": "object", "inside": {"k": "members", "members": a_members}}
        obj_b = {"k": "object", "inside": {"k": "members", "members": b_members}}
        uses = []
        if self.pick(2):
            uses.append({"k": "field", "e": ident(va), "name": n})
        if self.pick(2):
            uses.append({"k": "field", "e": ident(vb), "name": n})
        if self.pick(3) == 0:
            uses.append(std_call("toString", ident(va)))
        combined = {"k": "binary", "op": "Add", "l": ident(va), "r": ident(vb)}
        body = combined
        for u in uses:
            body = {"k": "if", "cond": {"k": "binary", "op": "Eq", "l": u, "r": u}, "then": body, "else": body}
        return {"k": "local", "binds": [{"name": va, "params": None, "value": obj_a}, {"name": vb, "params": None, "value": obj_b}], "body": body}

    def p_objext(self, ty, ctx):
        self.feature("object-extension")
        base_ty = ("obj", dict(ty[1]))
        base = self.expr(base_ty, ctx)
        lf = {}
        for n, t in ty[1].items():
            if self.pick(2):
                lf[n] = t
        members = self.obj_members(lf, ctx, super_fields=dict(ty[1]))
        return {"k": "objext", "e": base, "inside": {"k": "members", "members": members}}

    def p_objcomp(self, ty, ctx):
        # {[k]: body for k in names}: all wanted fields must have the same type for a comprehension
        types = set(map(str, ty[1].values()))
        if len(types) != 1 or not ty[1]:
            return self.p_objlit(ty, ctx)
        self.feature("object-comprehension")
        t = next(iter(ty[1].values()))
        names = list(ty[1])
        var = self.choice(VARS)
        arr = {"k": "array", "items": [str_lit(n) for n in names]}
        c2 = ctx.with_var(var, "str")
        locals1 = []
        if self.pick(3) == 0:
            ln = self.choice([v for v in VARS if v != var])
            locals1.append({"name": ln, "params": None, "value": {"k": "binary", "op": "Add", "l": ident(var), "r": str_lit("!")}})
            c2 = c2.with_var(ln, "str")
        in_object = "top" if not ctx.in_object else "nested"
        body_ctx = c2.child(self_fields=None, super_fields=None, in_object=in_object)
        return {"k": "object", "inside": {"k": "comp", "locals1": locals1, "name": ident(var), "plus": False, "body": self.expr(t, body_ctx), "locals2": [],
                                          "spec": [{"k": "for", "var": var, "inner": arr}]}}

    # -- failures ---------------------------------------------------------------------------------
    def p_error(self, ty, ctx):
        if ctx.fail["left"] <= 0:
            return self.leaf(ty, ctx)
        ctx.fail["left"] -= 1
        self.feature("error")
        msg = self.choice([str_lit("boom"), str_lit("é!"), {"k": "binary", "op": "Add", "l": str_lit("n="), "r": num_lit(float(self.pick(5)))},
                           {"k": "array", "items": [num_lit(1.0), str_lit("x")]}, {"k": "object", "inside": {"k": "members", "members": [
                               {"k": "field", "name": {"k": "ident", "name": "code"}, "plus": False, "vis": ":", "value": num_lit(2.5)}]}}])
        return {"k": "error", "e": msg}

    def p_assertexpr(self, ty, ctx):
        self.feature("assert-expr")
        fail = ctx.fail["left"] > 0 and self.pick(3) == 0
        if fail:
            ctx.fail["left"] -= 1
        cond = {"k": "bool", "v": not fail}
        msg = str_lit("amsg") if self.pick(2) else None
        return {"k": "assert", "assert": {"cond": cond, "msg": msg}, "body": self.expr(ty, ctx)}


@st.composite
def programs(draw, max_depth=4, ill_typed_rate=0):
    g = Gen(draw, max_depth=max_depth, ill_typed_rate=ill_typed_rate)
    ty = g.rand_type(0)
    k = draw(st.integers(0, 3))
    if k <= 1:
        ty = ("obj", {g.choice(FIELDS): g.choice(["int", "str", ("arr", "int", 2)]), g.choice(FIELDS): "int", g.choice(FIELDS): g.choice(["int", "str"])})
    if k == 0:
        tree = g.p_objplus(ty, Ctx(depth=1))
    else:
        tree = g.expr(ty, Ctx())
    return {"tree": tree, "features": sorted(g.features)}
