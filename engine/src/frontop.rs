//! `fsession`: a history of requests on one `rsjsonnet_front::Session` over real files.
//! The front end reports failures on stderr and returns `None`; outcomes are therefore `ok` (with the
//! manifested text / value kind) or `failed`.

use std::path::PathBuf;

use rsjsonnet_front::Session;
use rsjsonnet_lang::arena::Arena;
use rsjsonnet_lang::program::{Thunk, Value};
use serde_json::{Value as J, json};

pub fn op_fsession(req: &J) -> J {
    let root = PathBuf::from(req.get("root").and_then(J::as_str).unwrap_or("/nonexistent"));
    let arena = Arena::new();
    let mut session = Session::new(&arena);
    if let Some(ms) = req.get("max_stack").and_then(J::as_u64) {
        session.program_mut().set_max_stack(ms as usize);
    }
    // like the command-line tool: right-most -J wins, so search paths are added in reverse order
    if let Some(js) = req.get("jpaths").and_then(J::as_array) {
        for j in js.iter().rev() {
            session.add_search_path(root.join(j.as_str().unwrap_or("")));
        }
    }
    let mut thunks: Vec<Option<Thunk<'_>>> = Vec::new();
    let mut values: Vec<Option<Value<'_>>> = Vec::new();
    let mut results = Vec::new();
    for step in req.get("steps").and_then(J::as_array).cloned().unwrap_or_default() {
        let op = step[0].as_str().unwrap_or("");
        let out = match op {
            "load" => {
                let t = session.load_real_file(&root.join(step[1].as_str().unwrap_or("")));
                let ok = t.is_some();
                thunks.push(t);
                if ok { json!({"ok": {}}) } else { json!({"failed": true}) }
            }
            "eval" => {
                let i = step[1].as_u64().unwrap_or(0) as usize;
                match thunks.get(i).and_then(|t| t.clone()) {
                    Some(t) => {
                        let v = session.eval_value(&t);
                        let ok = v.is_some();
                        values.push(v);
                        if ok { json!({"ok": {}}) } else { json!({"failed": true}) }
                    }
                    None => {
                        values.push(None);
                        json!({"skip": true})
                    }
                }
            }
            "manifest" => {
                let i = step[1].as_u64().unwrap_or(0) as usize;
                match values.get(i).and_then(|v| v.clone()) {
                    Some(v) => match session.manifest_json(&v, step[2].as_bool().unwrap_or(false)) {
                        Some(s) => json!({"ok": {"text": s}}),
                        None => json!({"failed": true}),
                    },
                    None => json!({"skip": true}),
                }
            }
            "gc" => {
                session.program_mut().gc();
                json!({"ok": {}})
            }
            "stack" => {
                session.program_mut().set_max_stack(step[1].as_u64().unwrap_or(500) as usize);
                json!({"ok": {}})
            }
            _ => json!({"skip": true}),
        };
        results.push(out);
    }
    json!({"results": results})
}
