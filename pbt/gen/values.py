"""Shared value generators. Values travel in *typed form*:
None | bool | str | {"n": 16-hex-bits} | {"a": [...]} | {"o": [[key, value], ...]}"""
import math
import struct

from hypothesis import strategies as st


def f2h(x):
    return struct.pack(">d", float(x)).hex()


def h2f(h):
    return struct.unpack(">d", bytes.fromhex(h))[0]


def num(x):
    return {"n": f2h(x)}


def _neighbors(x):
    return [x, math.nextafter(x, math.inf), math.nextafter(x, -math.inf)]


BOUNDARY_DOUBLES = []
for _b in [0.0, 5e-324, 2.2250738585072014e-308, 1.0, 0.1, 0.5, 1.5, 2.5, 0.1 + 0.2, 1e-7, 1e-5, 1e-4, 123456789.0,
           1e15, 1e16, 1e17, 1e21, 1e22, 1e23, 2.0 ** 31, 2.0 ** 32, 2.0 ** 53, 2.0 ** 63, 2.0 ** 64, 255.0, 256.0,
           65535.0, 65536.0, 1.7976931348623157e308, 8.98846567431158e307, 4.9406564584124654e-324, 1e-323,
           9007199254740993.0, 0.3, 1 / 3, 2 / 3, 1e100, 1e-100, 123.456, 5e-5, 0.000123, 1e7, 12345678.9]:
    for _n in _neighbors(_b):
        if math.isfinite(_n):
            BOUNDARY_DOUBLES.append(_n)
            BOUNDARY_DOUBLES.append(-_n)
BOUNDARY_DOUBLES += [2.0 ** 53 - 2, 2.0 ** 53 + 2, 2.0 ** 53 - 1, -(2.0 ** 53) + 1, 2.0 ** 31 - 1, -(2.0 ** 31), -0.0]


@st.composite
def finite_doubles(draw):
    k = draw(st.integers(0, 9))
    if k <= 2:
        return draw(st.sampled_from(BOUNDARY_DOUBLES))
    if k <= 4:
        return float(draw(st.integers(-1000, 1000)))
    if k == 5:
        return draw(st.integers(-8000, 8000)) / 8.0
    if k == 6:
        # random bit patterns
        bits = draw(st.integers(0, (1 << 64) - 1))
        x = struct.unpack(">d", struct.pack(">Q", bits))[0]
        if not math.isfinite(x):
            return 0.0
        return x
    if k == 7:
        return float(draw(st.integers(-(2 ** 60), 2 ** 60)))
    return draw(st.floats(allow_nan=False, allow_infinity=False))


SPECIAL_CHARS = (
    [chr(c) for c in range(0, 32)] + ["\x7f"] + [chr(c) for c in (0x80, 0x85, 0x9f, 0xa0, 0xad)]
    + list("\"'\\/%$:-#,[]{}&*!|>?@`~=<>;. \t_+()^")
    + ["\u00e9", "\u00df", "\u0100", "\u0301", "\u2028", "\u2029", "\ufffd", "\ufeff", "\u20ac", "\u4e2d",
       "\U00010000", "\U0001f600", "\U0010ffff", "\ue000", "\ud7ff", "\uffff", "\U0001d11e", "\u200d", "\u0085"]
)
PLAIN_CHARS = list("abcxyzABZ019")


def chars():
    return st.one_of(st.sampled_from(SPECIAL_CHARS), st.sampled_from(PLAIN_CHARS), st.sampled_from(PLAIN_CHARS),
                     st.characters(exclude_categories=("Cs",)))


def strings(max_size=12):
    return st.text(alphabet=chars(), max_size=max_size)


YAML_HOSTILE = ["null", "~", "Null", "NULL", "true", "True", "TRUE", "false", "yes", "no", "on", "off", "y", "n",
                "1", "0", "-1", "+1", "1e3", "1E3", ".5", "1.", "0x1f", "0o17", "017", ".inf", "-.inf", ".nan", ".NaN",
                "- a", "a: b", "#a", "a #b", "2001-01-01", "12:30:45", "", " ", " a", "a ", "-", "?", ":", "- ", "? a",
                "[a]", "{a}", "&a", "*a", "!a", "|", ">", "%a", "@a", "`a", "'a'", '"a"', "a\nb", "a\n", "\ta",
                "1_000", "0b1", "=", "<<", "---", "...", "1:2", "a:b", "a:", ":a", "a,b", "a]", "a}", "null ", "~a",
                "0.", "-0", "+.inf", "1e", "e1", "0e0", "-.5", "+", "--- a", "a: ", "é: ü", "key", "some key",
                "-1.5e-3", "+1.5E+3", "-.5e-3", "-1_0.5e-1", "1.5e-3", "-1.5e3", "-0x1F", "-0b1", "-017", "-1:30", "-1:30.5", "2001-1-1 1:00:00 -5"]


# otherwise plain ASCII strings with exactly one character that needs care (fast paths that test only part of the set)
TRICKY = ["a\\b", "\\", "tail\\", "\\n", "\\u0041", "re\\d+", "q\"uote", "\"", "it's", "a/b", "</script>", "a\tb", "a\nb", "a\rb", "a\x7fb",
          "a\x1fb", "a\x00b", "caf\u00e9", "\u043a\u043b\u044e\u0447", "\u540d\u524d", "\uff11\uff12", "a.b", "a b", "a-b", "a_b", "-", "_", "1a", "a\u0301",
          "\u00e9", "a\u2028b", "a\u0085b", "\U0001f600", "k\U0001f600", "x\ufeff", "a$b", "a%b", "{a}", "[a]", "a,b", "a=b", "a:b", "a#b", "a&b", "a*b", "a\u00a0b"]


def keys():
    return st.one_of(st.sampled_from(["a", "b", "c", "k1", "x_y", "key"]), strings(6), st.sampled_from(YAML_HOSTILE), st.sampled_from(TRICKY))


def scalars(string_strategy=None):
    s = string_strategy if string_strategy is not None else st.one_of(strings(), st.sampled_from(YAML_HOSTILE), st.sampled_from(TRICKY))
    return st.one_of(st.none(), st.booleans(), finite_doubles().map(num), s)


def typed_values(max_leaves=12, string_strategy=None, key_strategy=None, allow_null=True):
    ks = key_strategy if key_strategy is not None else keys()
    leaf = scalars(string_strategy)
    if not allow_null:
        leaf = leaf.filter(lambda v: v is not None)

    def extend(children):
        arr = st.lists(children, max_size=4).map(lambda l: {"a": l})
        obj = st.lists(st.tuples(ks, children), max_size=4, unique_by=lambda kv: kv[0]).map(
            lambda l: {"o": [[k, v] for k, v in sorted(l, key=lambda kv: kv[0])]})
        return st.one_of(arr, obj)

    return st.recursive(leaf, extend, max_leaves=max_leaves)


# ---------------------------------------------------------------------------------------------
# helpers on typed values


def is_num(v):
    return isinstance(v, dict) and "n" in v


def is_arr(v):
    return isinstance(v, dict) and "a" in v


def is_obj(v):
    return isinstance(v, dict) and "o" in v


def normalize(v):
    """Objects sorted by key (code point order)."""
    if is_arr(v):
        return {"a": [normalize(x) for x in v["a"]]}
    if is_obj(v):
        return {"o": [[k, normalize(x)] for k, x in sorted(v["o"], key=lambda kv: kv[0])]}
    return v


def same(a, b, zero_sign=True):
    """Bitwise equality of typed values (objects compared by sorted keys)."""
    if is_num(a) and is_num(b):
        if a["n"] == b["n"]:
            return True
        if not zero_sign and h2f(a["n"]) == 0.0 and h2f(b["n"]) == 0.0:
            return True
        return False
    if is_arr(a) and is_arr(b):
        return len(a["a"]) == len(b["a"]) and all(same(x, y, zero_sign) for x, y in zip(a["a"], b["a"]))
    if is_obj(a) and is_obj(b):
        ao = sorted(a["o"], key=lambda kv: kv[0])
        bo = sorted(b["o"], key=lambda kv: kv[0])
        return len(ao) == len(bo) and all(k1 == k2 and same(v1, v2, zero_sign) for (k1, v1), (k2, v2) in zip(ao, bo))
    if isinstance(a, dict) or isinstance(b, dict):
        return False
    return type(a) is type(b) and a == b


def depth(v):
    if is_arr(v):
        return 1 + max([depth(x) for x in v["a"]], default=0)
    if is_obj(v):
        return 1 + max([depth(x) for _, x in v["o"]], default=0)
    return 0


def walk(v):
    yield v
    if is_arr(v):
        for x in v["a"]:
            yield from walk(x)
    elif is_obj(v):
        for k, x in v["o"]:
            yield k
            yield from walk(x)


def show(v):
    """Readable rendering for evidence samples."""
    if is_num(v):
        return repr(h2f(v["n"]))
    if is_arr(v):
        return "[" + ", ".join(show(x) for x in v["a"]) + "]"
    if is_obj(v):
        return "{" + ", ".join(f"{k!a}: {show(x)}" for k, x in v["o"]) + "}"
    return ascii(v)


def jsonnet_string(s):
    """A double-quoted Jsonnet string literal for s (every non-ASCII/control char escaped)."""
    out = ['"']
    for ch in s:
        c = ord(ch)
        if ch == '"':
            out.append('\\"')
        elif ch == "\\":
            out.append("\\\\")
        elif 0x20 <= c < 0x7f:
            out.append(ch)
        elif c < 0x10000:
            out.append("\\u%04x" % c)
        else:
            c -= 0x10000
            out.append("\\u%04x\\u%04x" % (0xd800 + (c >> 10), 0xdc00 + (c & 0x3ff)))
    out.append('"')
    return "".join(out)


def jsonnet_number(x):
    """Jsonnet expression denoting exactly the double x."""
    if x == 0:
        return "-0" if math.copysign(1, x) < 0 else "0"
    r = repr(abs(x))
    if r.endswith(".0"):
        r = r[:-2]
    # repr may give '1e+22' -> fine for Jsonnet; '5e-324' fine
    return ("-" + r) if x < 0 else r


def to_jsonnet(v):
    """Jsonnet source text denoting the typed value (negative numbers parenthesised)."""
    if v is None:
        return "null"
    if v is True:
        return "true"
    if v is False:
        return "false"
    if isinstance(v, str):
        return jsonnet_string(v)
    if is_num(v):
        s = jsonnet_number(h2f(v["n"]))
        return "(" + s + ")" if s.startswith("-") else s
    if is_arr(v):
        return "[" + ", ".join(to_jsonnet(x) for x in v["a"]) + "]"
    if is_obj(v):
        return "{" + ", ".join(f"{jsonnet_string(k)}: {to_jsonnet(x)}" for k, x in v["o"]) + "}"
    raise ValueError(v)
