#!/bin/bash
# scripts/sweep.sh <seed> [<seed> ...]  -- every quick check under the given seeds; prints alarms only
cd "$(dirname "$0")/.."
./scripts/build.sh all || exit 2
export VERIF_SKIP_BUILD=1 VERIF_NO_SAVE=1 VERIF_EVIDENCE_DIR=$PWD/.build/sweep-evidence
for sd in "$@"; do
  for c in C01 C02 C03 C04 C05 C06 C07 C08 C09 C10 C11 C12 C13 C14 C15 C16 C17 C18 C19 C20; do
    out=$(VERIF_SEED=$sd ./run $c quick 2>&1); rc=$?
    echo "seed=$sd $c rc=$rc $(echo "$out" | grep -E "^$c quick" )"
    if [ $rc -ne 0 ]; then echo "$out" | grep -E "^VIOLATION|signature|^  |INCONCLUSIVE" | cut -c1-600 | head -12; fi
  done
done
