"""C12 - the command-line tool's exit status, streams and output modes form one contract."""
import os
import subprocess
import tempfile

from hypothesis import strategies as st

from ..core import Check, Violation
from ..engine import CLI_BIN, Inconclusive
from ..gen import values as V
from ..ref import jsonstrict
from .c01 import PANIC_MARKERS

PROPERTY = "C12"
RULE = ("real processes in private temp dirs: a value V is chosen first, then a program denoting it (literal, function "
        "of TLAs, ext vars) and a flag set (-e / file / stdin, -S, -y, -m dir, -o file absent or pre-existing with longer "
        "sentinel content, --no-trailing-newline, -s, -t, every ext/TLA kind incl. environment and files, values with "
        "'=', quotes, newlines, non-ASCII, empty); faults: missing input, input is a directory, ENOTDIR, dangling "
        "symlink, -o into a missing directory / onto a directory / /dev/full, -m into a missing directory, stdout = "
        "/dev/full, closed pipe, closed descriptor. Oracle: exit 0 <=> everything succeeds (known by construction) and "
        "then stdout / -o / -m files hold exactly the mode's view of V; otherwise exit 1 (2 for usage errors), stderr "
        "non-empty, stdout empty, -o target untouched. Non-trivial = >= 2 mode flags, a mismatching type, or a fault; "
        "distinct by SHA-1 of the case")

SAFE_KEYS = ["a", "b", "c.json", "x-y", "K", "0", "é", "a b", "中.txt", "_"]
HOSTILE_KEYS = ["a/b", "", ".", "..", "/abs", "sub/"]


def run(args, cwd, stdin=None, env=None, stdout=subprocess.PIPE, close_stdout=False, timeout=120):
    e = {"PATH": os.environ.get("PATH", ""), "NO_COLOR": "1"}
    if env:
        e.update(env)
    kw = {}
    if close_stdout:
        kw["preexec_fn"] = lambda: os.close(1)
        stdout = None
    try:
        p = subprocess.run([CLI_BIN] + args, cwd=cwd, input=stdin, stdout=stdout, stderr=subprocess.PIPE, env=e, timeout=timeout, **kw)
    except subprocess.TimeoutExpired:
        raise Inconclusive("cli exceeded wall limit")
    return p.returncode, (p.stdout if stdout == subprocess.PIPE else b""), p.stderr


def basic_sanity(rc, out, err, what):
    text = err.decode("utf-8", "replace")
    if rc < 0:
        raise Violation(f"cli-signal:{-rc}", f"killed by signal {-rc}: {what}: {text[-300:]}")
    if rc not in (0, 1, 2):
        raise Violation(f"cli-exit:{rc}", f"exit status {rc}: {what}: {text[-300:]}")
    for m in PANIC_MARKERS:
        if m in text:
            raise Violation("cli-panic-text", f"stderr contains {m!r}: {what}: {text[-300:]}")
    if rc != 0:
        if not text.strip():
            raise Violation("silent-failure", f"exit {rc} with empty stderr: {what}")
        if out:
            raise Violation("stdout-on-failure", f"exit {rc} but stdout is not empty ({out[:80]!r}): {what}")


def parse_json(text, what):
    try:
        return jsonstrict.loads_typed(text)
    except jsonstrict.NotJson as e:
        raise Violation("output-not-json", f"{what}: {e}: {text[:200]!r}")


def view_check(mode, value, content, ntn, what):
    """content (bytes) must be exactly the mode's view of value."""
    try:
        text = content.decode("utf-8")
    except UnicodeDecodeError:
        raise Violation("output-not-utf8", f"{what}: {content[:100]!r}")
    if ntn:
        if text.endswith("\n") and mode != "string":
            raise Violation("trailing-newline-kept", f"{what}: --no-trailing-newline but output ends with a newline: {text[-40:]!r}")
    else:
        if mode == "yaml" and V.is_arr(value) and not value["a"]:
            pass
        elif not text.endswith("\n"):
            raise Violation("trailing-newline-missing", f"{what}: output does not end with a newline: {text[-40:]!r}")
        else:
            text = text[:-1]
    if mode == "json":
        if text.endswith("\n"):
            raise Violation("extra-newline", f"{what}: more than one trailing newline")
        got = parse_json(text, what)
        if not V.same(got, V.normalize(value)):
            raise Violation("wrong-output", f"{what}: output decodes to {V.show(got)}, expected {V.show(value)}")
    elif mode == "string":
        if text != value:
            raise Violation("wrong-output", f"{what}: -S output {text[:100]!r}, expected {value[:100]!r}")
    elif mode == "yaml":
        items = value["a"]
        if not items:
            if text != "":
                raise Violation("wrong-output", f"{what}: -y of an empty array must be empty, got {text[:100]!r}")
            return
        if not text.endswith("\n..." if True else ""):
            raise Violation("yaml-terminator", f"{what}: -y output does not end with '...': {text[-60:]!r}")
        body = text[:-3]
        if not body.startswith("---\n"):
            raise Violation("yaml-start", f"{what}: -y output does not start with '---': {text[:60]!r}")
        docs = body[4:].split("\n---\n")
        if docs and docs[-1].endswith("\n"):
            docs[-1] = docs[-1][:-1]
        if len(docs) != len(items):
            raise Violation("yaml-count", f"{what}: {len(docs)} documents for {len(items)} elements: {text[:200]!r}")
        for d, it in zip(docs, items):
            got = parse_json(d, what)
            if not V.same(got, V.normalize(it)):
                raise Violation("wrong-output", f"{what}: document decodes to {V.show(got)}, expected {V.show(it)}")


@st.composite
def mode_case(draw):
    mode = draw(st.sampled_from(["json", "json", "string", "yaml", "multi", "multi-string", "multi-yaml"]))
    if mode in ("json",):
        value = draw(V.typed_values(max_leaves=6))
    elif mode == "string":
        value = draw(st.one_of(V.strings(10), st.sampled_from(V.TRICKY), V.typed_values(max_leaves=3)))
    elif mode == "yaml":
        value = draw(st.one_of(st.lists(V.typed_values(max_leaves=4), max_size=3).map(lambda l: {"a": l}), V.typed_values(max_leaves=3)))
    else:
        keys = st.sampled_from(SAFE_KEYS) if draw(st.integers(0, 7)) else st.sampled_from(SAFE_KEYS + HOSTILE_KEYS)
        if mode == "multi":
            inner = V.typed_values(max_leaves=4)
        elif mode == "multi-string":
            inner = st.one_of(V.strings(8), V.strings(8), V.typed_values(max_leaves=2))
        else:
            inner = st.one_of(st.lists(V.typed_values(max_leaves=3), max_size=2).map(lambda l: {"a": l}), V.typed_values(max_leaves=2))
        fields = draw(st.lists(st.tuples(keys, inner), max_size=4, unique_by=lambda kv: kv[0]))
        value = {"o": [[k, v] for k, v in sorted(fields)]} if draw(st.integers(0, 9)) else draw(V.typed_values(max_leaves=2))
    return {
        "mode": mode, "value": value,
        "input": draw(st.sampled_from(["-e", "file", "stdin"])),
        "carrier": draw(st.sampled_from(["literal", "literal", "tla-code", "ext-code", "ext-code-file", "tla-code-file", "hidden", "traced"])),
        "ntn": draw(st.booleans()),
        "out": draw(st.sampled_from(["stdout", "stdout", "-o new", "-o existing"])),
        "extra": draw(st.lists(st.sampled_from(["-s 100", "-t 5", "-J .", "-t 0", "-t 1", "-s 1000000"]), max_size=2, unique_by=lambda x: x.split(" ")[0])),
    }


def build_invocation(case, d):
    value = case["value"]
    lit = V.to_jsonnet(value)
    args = []
    carrier = case["carrier"]
    if carrier == "hidden" and V.is_obj(value):
        # same value with extra hidden fields: hidden fields are never output
        src = "(" + lit + ") + {hidden_zz:: error 'hidden field evaluated', hidden_f(x):: x}"
    elif carrier == "tla-code":
        src = "function(v, unused=error 'unused default') v"
        args += ["--tla-code", "v=" + lit]
    elif carrier == "tla-code-file":
        src = "function(v) v"
        with open(os.path.join(d, "tla.jsonnet"), "w", encoding="utf-8") as f:
            f.write(lit)
        args += ["--tla-code-file", "v=tla.jsonnet"]
    elif carrier == "ext-code":
        src = "std.extVar('v')"
        args += ["--ext-code", "v=" + lit, "--ext-code", "unused=error 'unused ext code evaluated'"]
    elif carrier == "ext-code-file":
        src = "std.extVar('v')"
        with open(os.path.join(d, "ext.jsonnet"), "w", encoding="utf-8") as f:
            f.write(lit)
        args += ["--ext-code-file", "v=ext.jsonnet"]
    elif carrier == "traced":
        # the value passes through std.trace inside a call: the trace report (with its stack) goes to stderr, the contract is unchanged
        src = "local f(x) = std.trace('passing through', x); local g(y) = [f(y)][0]; g(" + lit + ")"
    else:
        src = lit
    stdin = None
    if case["input"] == "-e":
        args += ["-e", "--", src] if False else ["-e", src] if not src.startswith("-") else ["-e", "--", src]
    elif case["input"] == "file":
        with open(os.path.join(d, "main.jsonnet"), "w", encoding="utf-8") as f:
            f.write(src)
        args += ["main.jsonnet"]
    else:
        args += ["-"]
        stdin = src.encode("utf-8")
    return args, stdin


def check_modes(case):
    mode, value = case["mode"], case["value"]
    with tempfile.TemporaryDirectory(prefix="c12-") as d:
        args, stdin = build_invocation(case, d)
        if "\x00" in " ".join(args):
            return {"labels": ["skipped-nul"]}
        flags = []
        base_mode = mode.replace("multi-", "") if mode != "multi" else "json"
        if base_mode == "string":
            flags.append("-S")
        elif base_mode == "yaml":
            flags.append("-y")
        if mode.startswith("multi"):
            os.mkdir(os.path.join(d, "outdir"))
            flags += ["-m", "outdir"]
        if case["ntn"]:
            flags.append("--no-trailing-newline")
        for x in case["extra"]:
            flags += x.split(" ")
        sentinel = b"SENTINEL" * 4000
        opath = os.path.join(d, "out.txt")
        if case["out"].startswith("-o"):
            flags += ["-o", "out.txt"]
            if case["out"] == "-o existing":
                with open(opath, "wb") as f:
                    f.write(sentinel)
        # -e must come right before the code: put flags first
        rc, out, err = run(flags + args, d, stdin=stdin)
        what = f"rsjsonnet {' '.join(flags)} <{case['input']}/{case['carrier']}> for {V.show(value)[:160]}"
        basic_sanity(rc, out, err, what)
        # expected success?
        def fits(m, v):
            return (m == "json") or (m == "string" and isinstance(v, str)) or (m == "yaml" and V.is_arr(v))
        if mode.startswith("multi"):
            ok = V.is_obj(value) and all(fits(base_mode, v) for _, v in value["o"]) and \
                all(k not in HOSTILE_KEYS and "\x00" not in k and "/" not in k for k, _ in value["o"])
            hostile = V.is_obj(value) and any(k in HOSTILE_KEYS for k, _ in value["o"])
        else:
            ok = fits(base_mode, value)
            hostile = False
        if hostile and all(fits(base_mode, v) for _, v in value["o"]):
            # a field name that is not a plain file name: either outcome is acceptable, but never a crash (checked above)
            return {"nontrivial": True, "labels": ["hostile-key", f"rc={rc}"]}
        if not ok:
            if rc != 1:
                raise Violation("wrong-exit-status", f"{what}: value does not fit the mode, expected exit 1, got {rc}")
            if case["out"] == "-o existing" and open(opath, "rb").read() != sentinel:
                raise Violation("output-file-touched-on-failure", f"{what}: exit 1 but the -o file was modified")
            if case["out"] == "-o new" and os.path.exists(opath):
                raise Violation("output-file-created-on-failure", f"{what}: exit 1 but the -o file was created")
            return {"nontrivial": True, "labels": ["type-mismatch"], "sample": what}
        if rc != 0:
            raise Violation("wrong-exit-status", f"{what}: expected success, got exit {rc}: {err.decode('utf-8', 'replace')[-300:]}")
        if case["out"].startswith("-o"):
            if out:
                raise Violation("stdout-with-o", f"{what}: -o given but stdout is not empty: {out[:80]!r}")
            if not os.path.exists(opath):
                raise Violation("output-file-missing", f"{what}: exit 0 but the -o file does not exist")
            main = open(opath, "rb").read()
        else:
            main = out
        if mode.startswith("multi"):
            names = [k for k, _ in value["o"]]
            listing = main.decode("utf-8", "replace")
            exp_listing = "".join(os.path.join("outdir", k) + "\n" for k in sorted(names))
            if listing != exp_listing:
                raise Violation("multi-listing", f"{what}: file list {listing!r}, expected {exp_listing!r}")
            got_files = sorted(os.listdir(os.path.join(d, "outdir")))
            if got_files != sorted(names):
                raise Violation("multi-files", f"{what}: files {got_files}, expected {sorted(names)}")
            for k, v in value["o"]:
                content = open(os.path.join(d, "outdir", k), "rb").read()
                view_check(base_mode, v, content, case["ntn"], f"{what} [file {k!r}]")
        else:
            view_check(base_mode, value, main, case["ntn"], what)
        # the same command once more over its own results (output files exist already, with exactly this content): same contract
        if mode.startswith("multi") or case["out"].startswith("-o"):
            rc2, out2, err2 = run(flags + args, d, stdin=stdin)
            basic_sanity(rc2, out2, err2, what + " [second run]")
            if rc2 != 0:
                raise Violation("rerun-exit-status", f"{what}: the second run over its own output exits {rc2}: {err2.decode('utf-8', 'replace')[-300:]}")
            main2 = open(opath, "rb").read() if case["out"].startswith("-o") else out2
            if main2 != main:
                raise Violation("rerun-output-differs", f"{what}: the second run over its own output writes {main2[:200]!r}, the first wrote {main[:200]!r}")
            if mode.startswith("multi"):
                for k, v in value["o"]:
                    content = open(os.path.join(d, "outdir", k), "rb").read()
                    view_check(base_mode, v, content, case["ntn"], f"{what} [file {k!r}, second run]")
        nflags = len([f for f in flags if f in ("-S", "-y", "-m", "-o", "--no-trailing-newline")])
        return {"nontrivial": nflags >= 2, "labels": [mode, case["out"]], "sample": what}


# ---------------------------------------------------------------------------------------------
# ext vars / TLAs

STRS = ["", "v", "a=b", "=", "=x", "é😀", "line1\nline2", "\"quoted\"", "'", "\\", " ", "%s", "{}", "\t", "--flag", "-", "a b  c", "x=y=z"]


@st.composite
def binding_case(draw):
    return {"kind": draw(st.sampled_from(["ext-str", "ext-str-env", "ext-str-file", "tla-str", "tla-str-env", "tla-str-file", "ext-code-lazy", "ext-code-once",
                                          "tla-default", "tla-unknown", "tla-missing", "tla-nonfunc", "ext-unknown", "ext-dup", "ext-code-syntax", "ext-invalid-utf8-file"])),
            "name": draw(st.sampled_from(["v", "x", "A_B", "é", "a.b", "0"])), "val": draw(st.one_of(st.sampled_from(STRS), V.strings(8)))}


def check_bindings(case):
    kind, name, val = case["kind"], case["name"], case["val"]
    if "\x00" in val or "=" in name:
        return {}
    js = V.jsonnet_string
    with tempfile.TemporaryDirectory(prefix="c12b-") as d:
        env = None
        exp_rc = 0
        exp_val = None
        if kind == "ext-str":
            args = ["--ext-str", f"{name}={val}", "-e", f"std.extVar({js(name)})"]
            exp_val = val
        elif kind == "ext-str-env":
            env = {name: val}
            args = ["--ext-str", name, "-e", f"std.extVar({js(name)})"]
            exp_val = val
        elif kind == "ext-str-file":
            with open(os.path.join(d, "f.txt"), "w", encoding="utf-8", newline="") as f:
                f.write(val)
            args = ["--ext-str-file", f"{name}=f.txt", "-e", f"std.extVar({js(name)})"]
            exp_val = val
        elif kind == "tla-str":
            args = ["--tla-str", f"v={val}", "-e", "function(v) v"]
            exp_val = val
        elif kind == "tla-str-env":
            env = {"v": val}
            args = ["-A", "v", "-e", "function(v) v"]
            exp_val = val
        elif kind == "tla-str-file":
            with open(os.path.join(d, "f.txt"), "w", encoding="utf-8", newline="") as f:
                f.write(val)
            args = ["--tla-str-file", "v=f.txt", "-e", "function(v) v"]
            exp_val = val
        elif kind == "ext-code-lazy":
            args = ["--ext-code", f"{name}=error 'lazy'", "--ext-str", f"other={val}", "-e", "std.extVar('other')"]
            exp_val = val
        elif kind == "ext-code-once":
            args = ["--ext-code", f"{name}=std.trace('EVALUATED', {js(val)})", "-e", f"local a = std.extVar({js(name)}), b = std.extVar({js(name)}); if a == b then a else error 'differ'"]
            exp_val = val
        elif kind == "tla-default":
            args = ["--tla-code", "b=2", "-e", f"function(a={js(val)}, b, c=b) if b == 2 && c == 2 then a else error 'bad binding'"]
            exp_val = val
        elif kind == "tla-unknown":
            args = ["--tla-str", f"zz={val}", "-e", "function(v=1) v"]
            exp_rc = 1
        elif kind == "tla-missing":
            args = ["-e", "function(v) v"]
            exp_rc = 1
        elif kind == "tla-nonfunc":
            args = ["--tla-str", f"v={val}", "-e", "1"]
            exp_rc = 1
        elif kind == "ext-unknown":
            args = ["--ext-str", f"{name}={val}", "-e", "std.extVar('never')"]
            exp_rc = 1
        elif kind == "ext-dup":
            args = ["--ext-str", f"{name}={val}", "--ext-code", f"{name}=1", "-e", "1"]
            exp_rc = 1
        elif kind == "ext-code-syntax":
            args = ["--ext-code", f"{name}=1 +", "-e", "1"]
            exp_rc = 1
        else:
            with open(os.path.join(d, "f.bin"), "wb") as f:
                f.write(b"ab\xff\xfe")
            args = ["--ext-str-file", f"{name}=f.bin", "-e", f"std.extVar({js(name)})"]
            exp_rc = 1
        if env and (not name or "=" in name or not all(c.isalnum() or c == "_" for c in (name if kind.startswith("ext") else "v"))):
            return {}
        if env and "\x00" in val:
            return {}
        rc, out, err = run(["-S"] + args if exp_val is not None else args, d, env=env)
        what = f"rsjsonnet {args} env={env}"
        basic_sanity(rc, out, err, what)
        if rc != exp_rc:
            raise Violation("binding-exit-status", f"{what}: expected exit {exp_rc}, got {rc}: {err.decode('utf-8', 'replace')[-300:]}")
        if exp_val is not None:
            got = out.decode("utf-8", "replace")
            if got != exp_val + "\n":
                raise Violation("binding-value", f"{what}: output {got!r}, supplied value {exp_val!r}")
        if kind == "ext-code-once":
            n = err.decode("utf-8", "replace").count("TRACE: EVALUATED")
            if n != 1:
                raise Violation("ext-code-not-once", f"{what}: external code evaluated {n} times")
        return {"nontrivial": True, "labels": [kind], "sample": what[:200]}


# ---------------------------------------------------------------------------------------------
# faults

FAULTS = ["missing-input", "input-is-dir", "input-enotdir", "input-dangling-symlink", "o-missing-dir", "o-is-dir", "o-dev-full", "m-missing-dir", "m-is-file",
          "stdout-dev-full", "stdout-dev-full-ntn", "stdout-closed-pipe", "stdout-closed-fd", "usage-S-y", "usage-unknown-flag", "usage-no-input", "o-dev-full-ntn",
          "stdout-dev-full-S-ntn", "stdout-dev-full-big", "ext-str-file-missing", "tla-code-file-missing", "J-missing-dir"]


@st.composite
def fault_case(draw):
    return {"fault": draw(st.sampled_from(FAULTS)), "value": draw(V.typed_values(max_leaves=4))}


def check_faults(case):
    fault, value = case["fault"], case["value"]
    lit = V.to_jsonnet(value)
    if lit.startswith("-"):
        lit = "(" + lit + ")"
    with tempfile.TemporaryDirectory(prefix="c12f-") as d:
        exp = 1
        kw = {}
        if fault == "missing-input":
            args = ["nope.jsonnet"]
        elif fault == "input-is-dir":
            os.mkdir(os.path.join(d, "dir"))
            args = ["dir"]
        elif fault == "input-enotdir":
            open(os.path.join(d, "f"), "w").write("1")
            args = ["f/x.jsonnet"]
        elif fault == "input-dangling-symlink":
            os.symlink("nowhere", os.path.join(d, "link.jsonnet"))
            args = ["link.jsonnet"]
        elif fault == "o-missing-dir":
            args = ["-o", "no/such/out.json", "-e", lit]
        elif fault == "o-is-dir":
            os.mkdir(os.path.join(d, "dir"))
            args = ["-o", "dir", "-e", lit]
        elif fault in ("o-dev-full", "o-dev-full-ntn"):
            args = ["-o", "/dev/full"] + (["--no-trailing-newline"] if fault.endswith("ntn") else []) + ["-e", lit]
        elif fault == "m-missing-dir":
            args = ["-m", "no/such", "-e", "{a: " + lit + "}"]
        elif fault == "m-is-file":
            open(os.path.join(d, "f"), "w").write("1")
            args = ["-m", "f", "-e", "{a: " + lit + "}"]
        elif fault in ("stdout-dev-full", "stdout-dev-full-ntn", "stdout-dev-full-S-ntn", "stdout-dev-full-big"):
            args = (["--no-trailing-newline"] if "ntn" in fault else []) + (["-S", "-e", "'text without newline'"] if "-S-" in fault else
                                                                             ["-e", "std.range(1, 30000)"] if fault.endswith("big") else ["-e", lit])
            kw["stdout"] = open("/dev/full", "wb")
        elif fault == "stdout-closed-pipe":
            args = ["-e", "std.range(1, 200000)"]
            r, w = os.pipe()
            os.close(r)
            kw["stdout"] = w
        elif fault == "stdout-closed-fd":
            args = ["-e", lit]
            kw["close_stdout"] = True
        elif fault == "usage-S-y":
            args = ["-S", "-y", "-e", lit]
            exp = 2
        elif fault == "usage-unknown-flag":
            args = ["--no-such-flag", "-e", lit]
            exp = 2
        elif fault == "usage-no-input":
            args = ["-S"]
            exp = 2
        elif fault == "ext-str-file-missing":
            args = ["--ext-str-file", "v=missing.txt", "-e", lit]
        elif fault == "tla-code-file-missing":
            args = ["--tla-code-file", "v=missing.jsonnet", "-e", "function(v) v"]
        else:
            # an unused missing -J directory is not an error
            args = ["-J", "no/such/dir", "-e", lit]
            exp = 0
        try:
            rc, out, err = run(args, d, **kw)
        finally:
            so = kw.get("stdout")
            if isinstance(so, int):
                os.close(so)
            elif so is not None:
                so.close()
        what = f"rsjsonnet {args} [{fault}]"
        text = err.decode("utf-8", "replace")
        if fault == "stdout-closed-pipe" and rc == -13:
            # killed by SIGPIPE is the conventional outcome for a closed pipe when the signal is not ignored
            return {"nontrivial": True, "labels": [fault, "sigpipe"]}
        basic_sanity(rc, b"", err, what)
        if rc != exp:
            sig = "write-failure-exit0:" + fault if rc == 0 else f"fault-exit-status:{fault}"
            raise Violation(sig, f"{what}: expected exit {exp}, got {rc}; stderr: {text[-200:]!r}")
        if fault in ("o-missing-dir", "o-is-dir") and out:
            raise Violation("stdout-on-failure", f"{what}: stdout not empty")
        return {"nontrivial": True, "labels": [fault], "sample": what[:200]}


CHECKS = [
    Check("modes_and_views", check_modes, mode_case, quick=120, thorough=4000),
    Check("ext_and_tla_bindings", check_bindings, binding_case, quick=60, thorough=2000),
    Check("faults", check_faults, fault_case, quick=40, thorough=1000),
]
