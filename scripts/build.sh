#!/bin/bash
# Offline builds from /repo's current working tree.
#   build.sh engine   -> .build/engine-target/debug/rsjv   (rsjsonnet-lang with feature verif-hooks)
#   build.sh cli      -> .build/cli-target/debug/rsjsonnet (the real tool, hooks off)
#   build.sh all      -> both
#   build.sh fuzz     -> cargo +nightly fuzz build (thorough tiers only)
set -u
cd "$(dirname "$0")/.."
export CARGO_NET_OFFLINE=true
what="${1:-all}"
mkdir -p .build/logs
rc=0
build_engine() {
  ( cd engine && CARGO_TARGET_DIR=../.build/engine-target cargo build --offline >../.build/logs/engine.log 2>&1 ) || { echo "BUILD-FAILED engine (see .build/logs/engine.log)"; tail -30 .build/logs/engine.log; return 2; }
}
build_cli() {
  ( root="$PWD"; cd /repo && cargo build --offline -p rsjsonnet --target-dir "$root/.build/cli-target" >"$root/.build/logs/cli.log" 2>&1 ) || { echo "BUILD-FAILED cli (see .build/logs/cli.log)"; tail -30 .build/logs/cli.log; return 2; }
}
build_fuzz() {
  ( cd fuzz && CARGO_NET_OFFLINE=true CARGO_TARGET_DIR="$PWD/../.build/fuzz-target" cargo +nightly fuzz build --fuzz-dir . >../.build/logs/fuzz.log 2>&1 ) || { echo "BUILD-FAILED fuzz (see .build/logs/fuzz.log)"; tail -30 .build/logs/fuzz.log; return 2; }
}
case "$what" in
  engine) build_engine || rc=2 ;;
  cli) build_cli || rc=2 ;;
  fuzz) build_fuzz || rc=2 ;;
  all)
    build_engine & p1=$!
    build_cli & p2=$!
    wait $p1 || rc=2
    wait $p2 || rc=2
    ;;
  *) echo "usage: build.sh engine|cli|all|fuzz"; rc=2 ;;
esac
exit $rc
