"""C06 - numbers are always finite doubles, read and printed exactly."""
import math

from hypothesis import strategies as st

from ..core import Check, Violation
from ..gen import values as V
from .. import util

PROPERTY = "C06"
RULE = ("(a) every arithmetic operator and every std function (list read from the implementation) applied to numbers "
        "and number arrays from a boundary grid + random bit patterns: result finite or error, + - * / % compared "
        "bitwise with IEEE arithmetic, overflow/division by zero/domain errors must be errors; (b) generated decimal "
        "literal texts (1-400 digits, fraction, exponent, underscores, exponents near +-308/324) vs CPython float(); "
        "(c) every number-printing path vs float(text)==d bitwise and digit count == repr(d); (d) parseJson/parseYaml "
        "number texts. Non-trivial = overflow/undefined exact result, >= 16 significant digits, exponent within 3 of a "
        "limit, or a subnormal; distinct by SHA-1 of the case")

ALLOC_SIZED = {"range", "repeat", "makeArray"}
SKIP_FUNCS = {"native", "extVar", "trace", "assertEqual"}
BINOPS = ["+", "-", "*", "/", "%"]
BITOPS = ["<<", ">>", "&", "|", "^"]


def jn(x):
    s = V.jsonnet_number(x)
    return f"({s})"


def interesting(x):
    if x == 0:
        return False
    e = math.frexp(x)[1]
    return abs(x) < 2.3e-308 or e >= 1020 or e <= -1018 or len(repr(x).replace("-", "").replace(".", "").split("e")[0].strip("0")) >= 16


# ---------------------------------------------------------------------------------------------
# (a) no NaN / infinity producer

@st.composite
def arith_case(draw):
    a = draw(V.finite_doubles())
    b = draw(V.finite_doubles())
    c = draw(V.finite_doubles())
    arr = draw(st.lists(V.finite_doubles(), max_size=5))
    funcs = draw(st.lists(st.integers(0, 10_000), min_size=6, max_size=6))
    return {"a": V.f2h(a), "b": V.f2h(b), "c": V.f2h(c), "arr": [V.f2h(x) for x in arr], "funcs": funcs}


def py_binop(op, a, b):
    """IEEE result, or None when Jsonnet must report an error."""
    try:
        if op == "+":
            r = a + b
        elif op == "-":
            r = a - b
        elif op == "*":
            r = a * b
        elif op == "/":
            if b == 0:
                return None
            r = a / b
        else:
            if b == 0:
                return None
            r = math.fmod(a, b)
    except (OverflowError, ZeroDivisionError, ValueError):
        return None
    return r if math.isfinite(r) else None


DOMAIN_ERR = {
    "sqrt": lambda x: x < 0, "log": lambda x: x <= 0, "log2": lambda x: x <= 0, "log10": lambda x: x <= 0,
    "acos": lambda x: abs(x) > 1, "asin": lambda x: abs(x) > 1,
    "exp": lambda x: x > 711,
}


def check_arith(case):
    a, b, c = V.h2f(case["a"]), V.h2f(case["b"]), V.h2f(case["c"])
    arr = [V.h2f(x) for x in case["arr"]]
    fl = util.std_functions()
    exprs, metas = [], []
    for op in BINOPS:
        exprs.append(f"{jn(a)} {op} {jn(b)}")
        metas.append(("binop", op))
    for op in BITOPS:
        exprs.append(f"{jn(a)} {op} {jn(b)}")
        metas.append(("bitop", op))
    for op in ["-", "+", "~"]:
        exprs.append(f"{op}{jn(a)}")
        metas.append(("unop", op))
    arr_src = "[" + ", ".join(jn(x) for x in arr) + "]"
    exprs.append(f"std.sum({arr_src})")
    metas.append(("fn", "sum[]"))
    exprs.append(f"std.avg({arr_src})")
    metas.append(("fn", "avg[]"))
    exprs.append(f"std.foldl(function(x, y) x * y, {arr_src}, 1)")
    metas.append(("fn", "product"))
    exprs.append(f"std.foldl(function(x, y) x + y, {arr_src}, 0)")
    metas.append(("fn", "foldl+"))
    exprs.append(f"std.sort({arr_src})")
    metas.append(("fn", "sort[]"))
    exprs.append(f"std.minArray({arr_src}, onEmpty=0) + std.maxArray({arr_src}, onEmpty=0)")
    metas.append(("fn", "min+max"))
    cap = lambda x: x if abs(x) <= 2e4 else math.copysign(2e4, x)  # allocation-sizing arguments: memory and time are not the property
    for k in case["funcs"]:
        name, arity = fl[k % len(fl)]
        if name in SKIP_FUNCS:
            continue
        args = [a, b, c][:arity] if arity <= 3 else None
        if args is None:
            continue
        if name in ALLOC_SIZED:
            args = [cap(x) for x in args]
            if name == "makeArray":
                exprs.append(f"std.makeArray({jn(args[0])}, function(i) i * {jn(b)})")
                metas.append(("fn", name))
                continue
        exprs.append(f"std.{name}(" + ", ".join(jn(x) for x in args) + ")")
        metas.append(("fn", name))
        if arity >= 1:
            rest = "".join(", " + jn(x if name not in ALLOC_SIZED else cap(x)) for x in [b, c][:arity - 1])
            exprs.append(f"std.{name}({arr_src}{rest})" if name not in ALLOC_SIZED else f"std.{name}({jn(args[0])}{rest})")
            metas.append(("fn", name + "[]"))
    res = util.eval_exprs(exprs, want=["typed"])
    labels = []
    nt = False
    for e, (kind, op), r in zip(exprs, metas, res):
        v = util.err_variant(r)
        if v == "FUEL":
            continue
        if util.is_ok(r):
            t = util.typed(r)
            if not util.all_finite(t):
                raise Violation(f"nonfinite:{kind}:{op}", f"{e} evaluated to a non-finite number: {V.show(t)}")
        if kind == "binop":
            exp = py_binop(op, a, b)
            if exp is None:
                nt = True
                labels.append("must-error:" + op)
                if util.is_ok(r):
                    raise Violation(f"no-error:{op}", f"{e} must be an error (exact result not a finite double), got {V.show(util.typed(r))}")
            else:
                if not util.is_ok(r):
                    raise Violation(f"spurious-error:{op}", f"{e} failed with {r['err'].get('variant')} but the result {exp!r} is finite")
                got = util.typed(r)
                if not (V.is_num(got) and (got["n"] == V.f2h(exp) or (exp == 0 and V.h2f(got["n"]) == 0))):
                    raise Violation(f"wrong-arith:{op}", f"{e} = {V.show(got)}, IEEE result is {exp!r}")
        if kind == "fn" and op in DOMAIN_ERR and DOMAIN_ERR[op](a):
            nt = True
            labels.append("domain:" + op)
            if util.is_ok(r):
                raise Violation(f"no-error:{op}", f"{e} must be an error (outside the function's domain / overflow), got {V.show(util.typed(r))}")
        if util.is_ok(r) and kind in ("fn",) and V.is_num(util.typed(r)):
            # downstream sanity: x - x == 0 and x == x
            pass
    if interesting(a) or interesting(b):
        nt = True
    return {"nontrivial": nt, "labels": labels[:4], "sample": {"a": repr(a), "b": repr(b), "arr": [repr(x) for x in arr],
                                                                "exprs": exprs[:3] + exprs[-2:]}}


# ---------------------------------------------------------------------------------------------
# (b) literals

DIGITS = "0123456789"


@st.composite
def literal_text(draw, legal_only=False):
    nint = draw(st.sampled_from([1, 1, 2, 3, 5, 17, 20, 40, 309, 400]))
    first = draw(st.sampled_from("123456789")) if nint > 1 or draw(st.booleans()) else "0"
    ip = first + "".join(draw(st.lists(st.sampled_from(DIGITS), min_size=nint - 1, max_size=nint - 1)))
    if ip.startswith("0") and len(ip) > 1:
        ip = "1" + ip[1:]
    s = ip
    if draw(st.booleans()):
        nf = draw(st.sampled_from([1, 1, 2, 5, 17, 30, 350]))
        s += "." + "".join(draw(st.lists(st.sampled_from(DIGITS), min_size=nf, max_size=nf)))
    if draw(st.booleans()):
        e = draw(st.one_of(st.integers(-30, 30), st.sampled_from([308, 309, 307, -308, -323, -324, -325, -400, 400, -307, 290, -290]),
                           st.integers(-340, 340)))
        # shift exponent so that long integer parts land near the limits too
        if draw(st.booleans()):
            e -= len(ip) - 1
        sign = draw(st.sampled_from(["", "+"])) if e >= 0 else "-"
        s += draw(st.sampled_from("eE")) + sign + str(abs(e))
    # underscores between digits
    if draw(st.integers(0, 3)) == 0:
        out = []
        for i, ch in enumerate(s):
            out.append(ch)
            if ch in DIGITS and i + 1 < len(s) and s[i + 1] in DIGITS and draw(st.integers(0, 4)) == 0:
                out.append("_")
        s = "".join(out)
    return s


ILLEGAL = ["01", "00", "1.", "1.e3", "1e", "1e+", "1E-", "1__0", "1_", "1_.5", "1._5", "1.5_", "1e_5", "1e5_", "0_1", "1_e5",
           "1.5e", "1e+_5"]


def exact_decimal(fr):
    """Exact plain decimal text of a non-negative dyadic rational (Fraction)."""
    n, d = fr.numerator, fr.denominator
    k = d.bit_length() - 1  # d == 2**k
    scaled = n * 5 ** k     # n / 2^k == n * 5^k / 10^k
    digits = str(scaled)
    if k == 0:
        return digits
    digits = digits.rjust(k + 1, "0")
    return digits[:-k] + "." + digits[-k:]


@st.composite
def midpoint_literal(draw):
    """Decimal texts at and right next to the midpoint between two adjacent doubles (needs every digit to round)."""
    from fractions import Fraction
    x = abs(draw(V.finite_doubles()))
    if x > 1e300:
        x = 1e300
    y = math.nextafter(x, math.inf)
    mid = (Fraction(x) + Fraction(y)) / 2
    text = exact_decimal(mid)
    if "." not in text:
        text += ".0"
    c = draw(st.integers(0, 4))
    if c == 1:
        text += "0" * draw(st.integers(0, 30)) + "1"          # just above the tie
    elif c == 2:
        # just below the tie: decrement the last non-zero digit, then 9s
        t = text.rstrip("0")
        if t[-1] != ".":
            text = t[:-1] + str(int(t[-1]) - 1) + "9" * draw(st.integers(1, 30))
    elif c == 3:
        text += "0" * draw(st.integers(1, 40))
    elif c == 4 and len(text) > 60:
        # truncation at some digit position inside the expansion
        cut = draw(st.integers(20, len(text) - 1))
        text = text[:cut] if text[cut - 1] != "." else text[:cut + 1]
    # optionally move the decimal point with an exponent
    if draw(st.booleans()) and "." in text:
        ip, fp = text.split(".")
        sh = draw(st.integers(-5, 5))
        text = f"{ip}.{fp}e{sh}" if sh else text
        if sh:
            # value changed by 10^sh: compensate by shifting digits so the value stays the same
            digits = ip + fp
            point = len(ip) - sh
            if point <= 0:
                digits = "0" * (1 - point) + digits
                point = 1
            if point >= len(digits):
                digits = digits + "0" * (point - len(digits) + 1)
            text = (digits[:point].lstrip("0") or "0") + "." + digits[point:] + f"e{sh}"
    return text


@st.composite
def literal_case(draw):
    k = draw(st.integers(0, 11))
    if k == 0:
        return {"text": draw(st.sampled_from(ILLEGAL)), "legal": False}
    if k <= 3:
        return {"text": draw(midpoint_literal()), "legal": True, "midpoint": True}
    return {"text": draw(literal_text()), "legal": True}


POSITIONS = ["{L}", "[{L}][0]", "local x = {L}; x", "{{a: {L}}}.a", "(function(x) x)({L})", "std.abs({L})", "{L} + 0",
             "[x for x in [{L}]][0]", "{{a: {L}}} == {{a: {L}}}", "std.toString([{L}])"]


def check_literal(case):
    text = case["text"]
    res = util.eval_exprs([p.format(L=text) for p in POSITIONS], want=["typed"])
    r = res[0]
    plain0 = text.replace("_", "")
    try:
        overflow = case["legal"] and float(plain0) == float("inf")
    except ValueError:
        overflow = False
    for p, rp in zip(POSITIONS[1:], res[1:]):
        if util.is_ok(rp) != util.is_ok(r) and not (not case["legal"]):
            raise Violation("literal-position-dependent", f"literal {text[:60]!r}: `{POSITIONS[0].format(L=text)[:60]}` "
                            f"{'succeeds' if util.is_ok(r) else 'fails'} but `{p.format(L=text)[:80]}` {'succeeds' if util.is_ok(rp) else 'fails'}")
        if util.is_ok(rp) and not util.all_finite(util.typed(rp)) or (util.is_ok(rp) and isinstance(util.typed(rp), str) and ("inf" in util.typed(rp) or "NaN" in util.typed(rp))):
            raise Violation("literal-nonfinite", f"`{p.format(L=text)[:80]}` evaluated to a non-finite number: {V.show(util.typed(rp))}")
        if overflow and util.is_ok(rp):
            raise Violation("literal-overflow-accepted", f"literal {text[:60]!r} rounds to infinity but `{p.format(L=text)[:80]}` evaluated to {V.show(util.typed(rp))}")
        if util.is_ok(rp) and util.is_ok(r) and p in ("[{L}][0]", "local x = {L}; x", "{{a: {L}}}.a", "(function(x) x)({L})", "[x for x in [{L}]][0]") \
                and util.typed(rp) != util.typed(r):
            raise Violation("literal-position-dependent", f"literal {text[:60]!r} denotes {V.show(util.typed(r))} at top level but {V.show(util.typed(rp))} in `{p.format(L=text)[:80]}`")
    if not case["legal"]:
        # must not silently denote a number with the malformed part included
        if util.is_ok(r):
            raise Violation("illegal-literal-accepted", f"malformed number literal {text!r} evaluated to {V.show(util.typed(r))}")
        ph = r["err"].get("phase")
        if ph not in ("lex", "parse", "analyze"):
            raise Violation("illegal-literal-late", f"malformed number literal {text!r} was not rejected before evaluation: {r['err']}")
        return {"nontrivial": True, "labels": ["illegal"], "sample": text}
    plain = text.replace("_", "")
    exp = float(plain)
    exp_digits = plain.lower().split("e")[1] if "e" in plain.lower() else ""
    if not math.isfinite(exp):
        if util.is_ok(r):
            raise Violation("literal-overflow-accepted", f"literal {text[:60]!r} rounds to infinity but evaluated to {V.show(util.typed(r))}")
        return {"nontrivial": True, "labels": ["overflow"], "sample": text[:80]}
    if not util.is_ok(r):
        if len(exp_digits.lstrip("+-")) > 18:
            return {"labels": ["huge-exponent-rejected"]}
        raise Violation("literal-rejected", f"legal literal {text[:80]!r} (= {exp!r}) failed: {r['err']}")
    got = util.typed(r)
    if not (V.is_num(got) and got["n"] == V.f2h(exp)):
        raise Violation("literal-misrounded", f"literal {text[:80]!r} denotes {exp!r} ({V.f2h(exp)}) but evaluated to {V.show(got)} ({got})")
    nt = len(plain) >= 16 or interesting(exp) or "_" in text or exp == 0
    return {"nontrivial": nt, "labels": (["underscore"] if "_" in text else []) + (["midpoint"] if case.get("midpoint") else []), "sample": text[:80]}


# ---------------------------------------------------------------------------------------------
# (c) printing

def sig_digits(text):
    t = text.strip().lstrip("+-").lower()
    mant = t.split("e")[0]
    d = mant.replace(".", "").lstrip("0").rstrip("0")
    # trailing zeros of an integer mantissa are not significant; of a fraction neither
    return max(len(d), 1)


PRINT_CODES = [
    ("manifestJsonMinified", "function(v) std.manifestJsonMinified(v)"),
    ("toString", "function(v) std.toString(v)"),
    ("coercion", "function(v) '' + v"),
    ("%s", "function(v) '%s' % v"),
    ("in-array", "function(v) std.toString([v])"),
    ("manifestYamlDoc", "function(v) std.manifestYamlDoc(v)"),
    ("manifestPython", "function(v) std.manifestPython(v)"),
    ("manifestTomlEx", "function(v) std.manifestTomlEx({k: v}, '')"),
    ("manifestYamlDoc-key", "function(v) std.manifestYamlDoc({k: v})"),
    ("manifestIni", "function(v) std.manifestIni({sections: {s: {k: v}}})"),
    ("manifestXmlJsonml", "function(v) std.manifestXmlJsonml(['a', {k: v}])"),
    ("join-tostring", "function(v) std.join(',', [std.toString(v), std.toString(v)])"),
]


@st.composite
def print_case(draw):
    return {"d": V.f2h(draw(V.finite_doubles()))}


def number_text(name, text):
    if name == "in-array":
        return text.strip()[1:-1]
    if name == "manifestTomlEx":
        return text.split("=", 1)[1].strip()
    if name == "manifestYamlDoc-key":
        return text.split(":", 1)[1].strip()
    if name == "manifestIni":
        return text.split("=", 1)[1].strip()
    if name == "manifestXmlJsonml":
        return text.split('"')[1]
    if name == "join-tostring":
        return text.split(",")[0]
    return text.strip()


def check_print(case):
    d = V.h2f(case["d"])
    res = util.request({"op": "value", "value": {"n": case["d"]}, "want": ["api"], "codes": [c for _, c in PRINT_CODES]})["results"]
    texts = [("api_multi", res[0]), ("api_single", res[1])] + [(n, r) for (n, _), r in zip(PRINT_CODES, res[2:])]
    want_digits = sig_digits(repr(d))
    for name, r in texts:
        if "ok" not in r:
            raise Violation(f"print-error:{name}", f"{name} failed on {d!r}: {r.get('err')}")
        raw = r["ok"].get("text", r["ok"].get("typed"))
        text = number_text(name, raw)
        try:
            back = float(text)
        except ValueError:
            raise Violation(f"print-unreadable:{name}", f"{name} printed {d!r} as {raw!r}")
        if any(ch not in "0123456789+-.eE" for ch in text):
            raise Violation(f"print-unreadable:{name}", f"{name} printed {d!r} as {raw!r}")
        if V.f2h(back) != case["d"]:
            raise Violation(f"print-inexact:{name}", f"{name} printed {d!r} ({case['d']}) as {text!r}, which reads back as {back!r}")
        if sig_digits(text) != want_digits:
            raise Violation(f"print-not-shortest:{name}", f"{name} printed {d!r} as {text!r} ({sig_digits(text)} significant digits; shortest is {want_digits}: {repr(d)})")
    return {"nontrivial": interesting(d) or d == 0, "sample": repr(d)}


# ---------------------------------------------------------------------------------------------
# (d) reading numbers in parseJson / parseYaml

@st.composite
def json_number_case(draw):
    t = draw(literal_text())
    t = t.replace("_", "")
    if draw(st.booleans()):
        t = "-" + t
    return {"text": t}


def check_json_number(case):
    text = case["text"]
    exp = float(text)
    lit = V.jsonnet_string(text)
    res = util.eval_exprs([f"std.parseJson({lit})", f"std.parseYaml({lit})", f"std.parseJson('[' + {lit} + ']')[0]",
                           f"std.parseYaml('a: ' + {lit}).a"], want=["typed"])
    for name, r in zip(["parseJson", "parseYaml", "parseJson[]", "parseYaml.a"], res):
        if not math.isfinite(exp):
            if util.is_ok(r):
                raise Violation(f"overflow-accepted:{name}", f"{name}({text[:60]!r}) overflows but gave {V.show(util.typed(r))}")
            continue
        if not util.is_ok(r):
            raise Violation(f"number-rejected:{name}", f"{name}({text[:80]!r}) failed: {r['err']}")
        got = util.typed(r)
        if not (V.is_num(got) and got["n"] == V.f2h(exp)):
            # YAML core schema reads a digit string as an integer; sign of zero may be lost there
            if name.startswith("parseYaml") and V.is_num(got) and exp == 0 and V.h2f(got["n"]) == 0:
                continue
            raise Violation(f"number-misread:{name}", f"{name}({text[:80]!r}) = {V.show(got)}, correctly rounded value is {exp!r}")
    # the same number text reached through YAML anchors and aliases (an anchored value, an anchored *key* - keys are strings, the
    # alias in value position is a number again -, flow and block collections): the value, or an error, never an infinity
    docs = [f"- &a {text}\n- *a\n", f"&k {text}: 1\nv: *k\n", f"{{a: &x {text}, b: *x}}", f"? &k {text}\n: 1\nv: [*k, *k]\n", f"[&a {text}, *a, *a]", f"a: &n {text}\nb: {{c: *n}}\n"]
    res2 = util.eval_exprs([f"std.parseYaml({V.jsonnet_string(d)})" for d in docs], want=["typed"])
    for d, r in zip(docs, res2):
        if not util.is_ok(r):
            continue
        nums = [V.h2f(x["n"]) for x in V.walk(util.typed(r)) if V.is_num(x)]
        if any(not math.isfinite(x) for x in nums):
            raise Violation("nonfinite:parseYaml-alias", f"std.parseYaml({d[:80]!r}) contains a non-finite number: {V.show(util.typed(r))[:200]}")
        if math.isfinite(exp) and any(x != exp and not (x == 1.0) for x in nums):
            raise Violation("number-misread:parseYaml-alias", f"std.parseYaml({d[:80]!r}) = {V.show(util.typed(r))[:200]}, every number should be {exp!r}")
    return {"nontrivial": len(text) >= 16 or not math.isfinite(exp) or interesting(exp), "sample": text[:80]}


# ---------------------------------------------------------------------------------------------
# (e) digit strings whose value crosses the largest double at the last digit, the last but one, ... (parseInt / parseOctal /
# parseHex, and the 0x / 0o scalars of parseYaml): finite and correctly read, or an error - never an infinity
from .c20 import check_radix as _check_radix

THRESHOLD = {8: 342, 10: 309, 16: 256}   # number of digits of the largest double in each radix


@st.composite
def threshold_digits_case(draw):
    radix = draw(st.sampled_from([8, 10, 16]))
    top = {8: "7", 10: "9", 16: "f"}[radix]
    n = THRESHOLD[radix] + draw(st.integers(-2, 3))
    first = draw(st.sampled_from(["1", "1", top, {8: "3", 10: "2", 16: "8"}[radix], {8: "4", 10: "1", 16: "F"}[radix]]))
    fill = draw(st.sampled_from(["0", "0", top, "r"]))
    if fill == "r":
        rest = "".join(draw(st.lists(st.sampled_from("0123456789abcdef"[:radix]), min_size=n - 1, max_size=n - 1)))
    else:
        rest = fill * (n - 1)
    s = first + rest
    if radix == 10 and draw(st.booleans()):
        s = "-" + s
    return {"radix": radix, "s": s, "yaml": draw(st.booleans())}


def check_threshold_digits(case):
    out = _check_radix({"radix": case["radix"], "s": case["s"]})
    if case["yaml"] and case["radix"] in (8, 16):
        lit = ("0o" if case["radix"] == 8 else "0x") + case["s"]
        r = util.eval_one(f"std.parseYaml({V.jsonnet_string(lit)})", want=["typed"])
        if util.is_ok(r):
            got = util.typed(r)
            if V.is_num(got) and not math.isfinite(V.h2f(got["n"])):
                raise Violation("nonfinite:parseYaml", f"std.parseYaml({lit[:40]!r}...) ({len(lit)} characters) gave {V.show(got)}")
    return {"nontrivial": True, "labels": out.get("labels", []), "sample": {"radix": case["radix"], "digits": len(case["s"]), "start": case["s"][:12]}}


CHECKS = [
    Check("digit_strings_at_the_overflow_threshold", check_threshold_digits, threshold_digits_case, quick=60, thorough=2000),
    Check("no_nan_inf", check_arith, arith_case, quick=250, thorough=8000),
    Check("literals", check_literal, literal_case, quick=400, thorough=12000),
    Check("printing", check_print, print_case, quick=300, thorough=10000),
    Check("parse_numbers", check_json_number, json_number_case, quick=200, thorough=6000),
]
