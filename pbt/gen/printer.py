"""Tree -> Jsonnet text. Returns the text and the *expected parse tree* (the input tree with the parentheses the
printer inserted as `paren` nodes) where every node carries the byte span [start, end] of its first..last token.

Tree shapes mirror the engine's AST dump (see engine/src/dump.rs) with plain strings for names:
  null | bool(v) | self | dollar | string(v, form?) | textblock(v) | number(text) | object(inside) | array(items)
  | arraycomp(body, spec) | field(e, name) | index(e, index) | slice(e, start, end, step) | superfield(name)
  | superindex(index) | call(f, args[{name, e}], tailstrict) | ident(name) | local(binds, body) | if(cond, then, else)
  | binary(op, l, r) | unary(op, e) | objext(e, inside) | func(params, body) | assert(assert{cond,msg}, body)
  | import/importstr/importbin(path) | error(e) | insuper(e)
inside = {k: members, members: [...]} | {k: comp, locals1, name, plus, body, locals2, spec}
"""
from ..ref import lexer as RL
from . import values as V

BIN_LEVEL = {
    "LogicOr": 1, "LogicAnd": 2, "BitwiseOr": 3, "BitwiseXor": 4, "BitwiseAnd": 5, "Eq": 6, "Ne": 6,
    "Lt": 7, "Le": 7, "Gt": 7, "Ge": 7, "In": 7, "Shl": 8, "Shr": 8, "Add": 9, "Sub": 9, "Mul": 10, "Div": 10, "Rem": 10,
}
BIN_TEXT = {
    "LogicOr": "||", "LogicAnd": "&&", "BitwiseOr": "|", "BitwiseXor": "^", "BitwiseAnd": "&", "Eq": "==", "Ne": "!=",
    "Lt": "<", "Le": "<=", "Gt": ">", "Ge": ">=", "In": "in", "Shl": "<<", "Shr": ">>", "Add": "+", "Sub": "-",
    "Mul": "*", "Div": "/", "Rem": "%",
}
UN_TEXT = {"Minus": "-", "Plus": "+", "BitwiseNot": "~", "LogicNot": "!"}
L_UNARY, L_POSTFIX = 11, 12
GREEDY = {"local", "if", "func", "error", "assert", "import", "importstr", "importbin"}
KEYWORDS = set(RL.KEYWORDS)


def level(t):
    k = t["k"]
    if k == "binary":
        return BIN_LEVEL[t["op"]]
    if k == "insuper":
        return 7
    if k == "unary":
        return L_UNARY
    if k in GREEDY:
        return 0
    return 13  # primary / postfix


class Opts:
    """choices: a callable draw(n) -> int in [0, n) used for every printing choice (deterministic per case)."""

    def __init__(self, choose, parens="minimal", spacing="normal"):
        self.choose = choose
        self.parens = parens      # minimal | full | random
        self.spacing = spacing    # tight | normal | noisy


class Printer:
    def __init__(self, opts):
        self.o = opts
        self.toks = []  # token texts

    # -- token emission -------------------------------------------------------------------------
    def tok(self, text):
        self.toks.append(text)
        return len(self.toks) - 1

    def node(self, t, first_tok, /, **extra):
        out = dict(t)
        out.update(extra)
        out["_tok"] = [first_tok, len(self.toks) - 1]
        return out

    # -- literals -------------------------------------------------------------------------------
    def string_text(self, v):
        c = self.o.choose(4)
        if c == 0:
            return "'" + "".join(self._esc(ch, "'") for ch in v) + "'"
        if c == 1:
            q = '"' if self.o.choose(2) else "'"
            return "@" + q + v.replace(q, q + q) + q
        if c == 2:
            return V.jsonnet_string(v)
        return '"' + "".join(self._esc(ch, '"') for ch in v) + '"'

    @staticmethod
    def _esc(ch, q):
        if ch == q or ch == "\\":
            return "\\" + ch
        if ch == "\n":
            return "\\n"
        if ch == "\t":
            return "\\t"
        if ch == "\r":
            return "\\r"
        return ch

    def textblock_text(self, v):
        # v ends with "\n" and its first line is not empty; every non-empty line is indented
        indent = ["  ", "\t", " ", "    "][self.o.choose(4)]
        lines = v[:-1].split("\n")
        body = "".join((indent + ln + "\n") if ln != "" else "\n" for ln in lines)
        return "|||\n" + body + "|||"

    # -- expressions ----------------------------------------------------------------------------
    def expr(self, t, min_level=0, right_open=True, dangling=False):
        """Prints t in a position that requires binding strength >= min_level. right_open: nothing follows that a
        greedy form would absorb. dangling: an `else` follows (an if without else must be parenthesised)."""
        k = t["k"]
        need = level(t) < min_level
        if k in GREEDY and not right_open:
            need = True
        if k == "if" and t.get("else") is None and dangling:
            need = True
        if self.o.parens == "full" and k not in ("null", "bool", "self", "dollar", "string", "textblock", "number", "ident", "paren"):
            need = True
        extra = 0
        if self.o.parens == "random" and self.o.choose(5) == 0:
            extra = 1 + self.o.choose(2)
        if need:
            extra = max(extra, 1)
        if k == "number" and t.get("_needs_paren"):
            extra = max(extra, 1)
        if extra:
            start = self.tok("(")
            inner = self.expr_paren_inner(t, extra - 1)
            self.tok(")")
            return self.node({"k": "paren", "e": inner}, start)
        return self.bare(t, right_open, dangling)

    def expr_paren_inner(self, t, more):
        if more > 0:
            start = self.tok("(")
            inner = self.expr_paren_inner(t, more - 1)
            self.tok(")")
            return self.node({"k": "paren", "e": inner}, start)
        return self.bare(t, True, False)

    def delimited(self, t):
        return self.expr(t, 0, True, False)

    def bare(self, t, right_open, dangling):
        k = t["k"]
        start = len(self.toks)
        if k == "null":
            self.tok("null")
            return self.node(t, start)
        if k == "bool":
            self.tok("true" if t["v"] else "false")
            return self.node(t, start)
        if k == "self":
            self.tok("self")
            return self.node(t, start)
        if k == "dollar":
            self.tok("$")
            return self.node(t, start)
        if k == "string":
            self.tok(self.string_text(t["v"]))
            return self.node(t, start)
        if k == "textblock":
            self.tok(self.textblock_text(t["v"]))
            return self.node(t, start)
        if k == "number":
            self.tok(t["text"])
            return self.node(t, start)
        if k == "ident":
            self.tok(t["name"])
            return self.node(t, start)
        if k == "paren":
            self.tok("(")
            inner = self.delimited(t["e"])
            self.tok(")")
            return self.node(t, start, e=inner)
        if k == "object":
            self.tok("{")
            inside = self.inside(t["inside"])
            self.tok("}")
            return self.node(t, start, inside=inside)
        if k == "array":
            self.tok("[")
            items = []
            for i, it in enumerate(t["items"]):
                if i:
                    self.tok(",")
                items.append(self.delimited(it))
            if t["items"] and self.o.choose(3) == 0:
                self.tok(",")
            self.tok("]")
            return self.node(t, start, items=items)
        if k == "arraycomp":
            self.tok("[")
            body = self.delimited(t["body"])
            if self.o.choose(4) == 0:
                self.tok(",")
            spec = self.spec(t["spec"])
            self.tok("]")
            return self.node(t, start, body=body, spec=spec)
        if k == "field":
            e = self.expr(self._num_guard(t["e"]), L_POSTFIX, False, False)
            self.tok(".")
            self.tok(t["name"])
            return self.node(t, start, e=e)
        if k == "index":
            e = self.expr(t["e"], L_POSTFIX, False, False)
            self.tok("[")
            ix = self.delimited(t["index"])
            self.tok("]")
            return self.node(t, start, e=e, index=ix)
        if k == "slice":
            e = self.expr(t["e"], L_POSTFIX, False, False)
            self.tok("[")
            a = b = c = None
            if t.get("start") is not None:
                a = self.delimited(t["start"])
            # colon layouts (12 combinations x both tokenisations of an empty middle part)
            if t.get("end") is None and self.o.choose(2) == 0:
                self.tok("::")
                if t.get("step") is not None:
                    c = self.delimited(t["step"])
            else:
                self.tok(":")
                if t.get("end") is not None:
                    b = self.delimited(t["end"])
                if t.get("step") is not None:
                    self.tok(":")
                    c = self.delimited(t["step"])
                elif self.o.choose(2) == 0:
                    self.tok(":")
            self.tok("]")
            return self.node(t, start, e=e, start=a, end=b, step=c)
        if k == "superfield":
            self.tok("super")
            self.tok(".")
            self.tok(t["name"])
            return self.node(t, start)
        if k == "superindex":
            self.tok("super")
            self.tok("[")
            ix = self.delimited(t["index"])
            self.tok("]")
            return self.node(t, start, index=ix)
        if k == "call":
            f = self.expr(t["f"], L_POSTFIX, False, False)
            self.tok("(")
            args = []
            for i, a in enumerate(t["args"]):
                if i:
                    self.tok(",")
                if a.get("name") is not None:
                    self.tok(a["name"])
                    self.tok("=")
                args.append({"name": a.get("name"), "e": self.delimited(a["e"])})
            if t["args"] and self.o.choose(4) == 0:
                self.tok(",")
            self.tok(")")
            if t.get("tailstrict"):
                self.tok("tailstrict")
            return self.node(t, start, f=f, args=args)
        if k == "local":
            self.tok("local")
            binds = []
            for i, b in enumerate(t["binds"]):
                if i:
                    self.tok(",")
                binds.append(self.bind(b))
            self.tok(";")
            body = self.expr(t["body"], 0, True, dangling)
            return self.node(t, start, binds=binds, body=body)
        if k == "if":
            self.tok("if")
            cond = self.delimited(t["cond"])
            self.tok("then")
            if t.get("else") is not None:
                th = self.expr(t["then"], 0, True, True)
                self.tok("else")
                el = self.expr(t["else"], 0, True, dangling)
            else:
                th = self.expr(t["then"], 0, True, dangling)
                el = None
            return self.node(t, start, cond=cond, then=th, **{"else": el})
        if k == "binary":
            lv = BIN_LEVEL[t["op"]]
            l = self.expr(t["l"], lv, False, False)
            self.tok(BIN_TEXT[t["op"]])
            r = self.expr(self._in_guard(t), lv + 1, right_open, dangling)
            return self.node(t, start, l=l, r=r)
        if k == "insuper":
            e = self.expr(t["e"], 7, False, False)
            self.tok("in")
            self.tok("super")
            return self.node(t, start, e=e)
        if k == "unary":
            self.tok(UN_TEXT[t["op"]])
            e = self.expr(t["e"], L_UNARY, right_open, dangling)
            return self.node(t, start, e=e)
        if k == "objext":
            e = self.expr(t["e"], L_POSTFIX, False, False)
            self.tok("{")
            inside = self.inside(t["inside"])
            self.tok("}")
            return self.node(t, start, e=e, inside=inside)
        if k == "func":
            self.tok("function")
            self.tok("(")
            params = self.params(t["params"])
            self.tok(")")
            body = self.expr(t["body"], 0, True, dangling)
            return self.node(t, start, params=params, body=body)
        if k == "assert":
            a = self.assert_(t["assert"], ";")
            self.tok(";")
            body = self.expr(t["body"], 0, True, dangling)
            return self.node(t, start, body=body, **{"assert": a})
        if k in ("import", "importstr", "importbin"):
            self.tok(k)
            p = self.expr(t["path"], 0, True, dangling)
            return self.node(t, start, path=p)
        if k == "error":
            self.tok("error")
            e = self.expr(t["e"], 0, True, dangling)
            return self.node(t, start, e=e)
        raise ValueError(f"unknown node kind {k}")

    @staticmethod
    def _num_guard(e):
        # `1.f` does not lex as number, dot, ident; `1 .f` does (spacing takes care of it)
        return e

    @staticmethod
    def _in_guard(t):
        # `a in super.f` is binary In with a superfield operand; `a in super` alone is the insuper form.
        return t["r"]

    def params(self, ps):
        out = []
        for i, p in enumerate(ps):
            if i:
                self.tok(",")
            self.tok(p["name"])
            d = None
            if p.get("default") is not None:
                self.tok("=")
                d = self.delimited(p["default"])
            out.append({"name": p["name"], "default": d})
        if ps and self.o.choose(4) == 0:
            self.tok(",")
        return out

    def bind(self, b):
        self.tok(b["name"])
        params = None
        if b.get("params") is not None:
            self.tok("(")
            params = self.params(b["params"])
            self.tok(")")
        self.tok("=")
        v = self.delimited(b["value"])
        return {"name": b["name"], "params": params, "value": v}

    def assert_(self, a, _end):
        self.tok("assert")
        cond = self.delimited(a["cond"])
        msg = None
        if a.get("msg") is not None:
            self.tok(":")
            msg = self.delimited(a["msg"])
        return {"cond": cond, "msg": msg}

    def spec(self, spec):
        out = []
        for s in spec:
            if s["k"] == "for":
                self.tok("for")
                self.tok(s["var"])
                self.tok("in")
                out.append({"k": "for", "var": s["var"], "inner": self.delimited(s["inner"])})
            else:
                self.tok("if")
                out.append({"k": "if", "cond": self.delimited(s["cond"])})
        return out

    def field_name(self, n):
        if n["k"] == "ident":
            self.tok(n["name"])
            return n
        if n["k"] == "string":
            self.tok(self.string_text(n["name"]))
            return n
        self.tok("[")
        e = self.delimited(n["expr"])
        self.tok("]")
        return {"k": "expr", "expr": e}

    def inside(self, ins):
        if ins["k"] == "members":
            ms = []
            for i, m in enumerate(ins["members"]):
                if i:
                    self.tok(",")
                if m["k"] == "local":
                    self.tok("local")
                    ms.append({"k": "local", "bind": self.bind(m["bind"])})
                elif m["k"] == "assert":
                    ms.append({"k": "assert", "assert": self.assert_(m["assert"], ",")})
                elif m["k"] == "field":
                    name = self.field_name(m["name"])
                    self.tok(("+" if m["plus"] else "") + m["vis"])
                    ms.append({"k": "field", "name": name, "plus": m["plus"], "vis": m["vis"], "value": self.delimited(m["value"])})
                else:
                    name = self.field_name(m["name"])
                    self.tok("(")
                    params = self.params(m["params"])
                    self.tok(")")
                    self.tok(m["vis"])
                    ms.append({"k": "method", "name": name, "params": params, "vis": m["vis"], "value": self.delimited(m["value"])})
            if ins["members"] and self.o.choose(3) == 0:
                self.tok(",")
            return {"k": "members", "members": ms}
        l1 = []
        for b in ins["locals1"]:
            self.tok("local")
            l1.append(self.bind(b))
            self.tok(",")
        self.tok("[")
        name = self.delimited(ins["name"])
        self.tok("]")
        self.tok("+:" if ins["plus"] else ":")
        body = self.delimited(ins["body"])
        l2 = []
        for b in ins["locals2"]:
            self.tok(",")
            self.tok("local")
            l2.append(self.bind(b))
        if self.o.choose(4) == 0:
            self.tok(",")
        spec = self.spec(ins["spec"])
        return {"k": "comp", "locals1": l1, "name": name, "plus": ins["plus"], "body": body, "locals2": l2, "spec": spec}

    # -- layout ---------------------------------------------------------------------------------
    def layout(self):
        """Joins the tokens; returns (text, [(start, end) byte offsets per token])."""
        parts = []
        offsets = []
        pos = 0
        prev = None
        for t in self.toks:
            sep = ""
            if prev is not None:
                must = needs_space(prev, t)
                if self.o.spacing == "tight":
                    sep = " " if must else ""
                elif self.o.spacing == "normal":
                    sep = " " if (must or self.o.choose(4) != 0) else ""
                else:
                    c = self.o.choose(8)
                    sep = [" ", "\n", "  ", " /* c */ ", " // c\n", "\t", "\n\n", " # c\n"][c]
                    if not must and self.o.choose(3) == 0:
                        sep = ""
            parts.append(sep)
            pos += len(sep.encode("utf-8"))
            b = t.encode("utf-8")
            offsets.append((pos, pos + len(b)))
            parts.append(t)
            pos += len(b)
            prev = t
        return "".join(parts), offsets


_NS_CACHE = {}


def needs_space(a, b):
    """True when the reference lexer does not tokenise a+b as exactly [a, b]."""
    key = (a[-8:], b[:8]) if len(a) <= 8 and len(b) <= 8 else None
    if key is not None and key in _NS_CACHE:
        return _NS_CACHE[key]
    ta = a.encode("utf-8")
    tb = b.encode("utf-8")
    r = RL.ref_lex(ta + tb)
    ok = r[0] == "ok" and [(s, e) for _, _, s, e in r[1] if _ != "eof"] == [(0, len(ta)), (len(ta), len(ta) + len(tb))]
    res = not ok
    if key is not None:
        _NS_CACHE[key] = res
    return res


def print_tree(tree, choose, parens="minimal", spacing="normal"):
    """Returns (text, expected_tree_with_spans)."""
    p = Printer(Opts(choose, parens, spacing))
    exp = p.expr(tree, 0, True, False)
    text, offs = p.layout()

    def fix(x):
        if isinstance(x, dict):
            out = {}
            for k, v in x.items():
                if k == "_tok":
                    out["span"] = [offs[v[0]][0], offs[v[1]][1]]
                else:
                    out[k] = fix(v)
            return out
        if isinstance(x, list):
            return [fix(y) for y in x]
        return x

    return text, fix(exp)


def strip_parens(t):
    if isinstance(t, dict):
        if t.get("k") == "paren":
            return strip_parens(t["e"])
        return {k: strip_parens(v) for k, v in t.items() if k != "span"}
    if isinstance(t, list):
        return [strip_parens(x) for x in t]
    return t
