//! `rsjv`: JSON-lines adapter around rsjsonnet-lang for the verification driver.

pub mod dump;
pub mod evalop;
pub mod frontop;
pub mod misc;
pub mod oracles;

use std::cell::RefCell;

use serde_json::{Value as J, json};

thread_local! {
    static LAST_PANIC: RefCell<Option<(String, String)>> = const { RefCell::new(None) };
}

pub fn install_panic_hook() {
    std::panic::set_hook(Box::new(|info| {
        let msg = if let Some(s) = info.payload().downcast_ref::<&str>() {
            (*s).to_string()
        } else if let Some(s) = info.payload().downcast_ref::<String>() {
            s.clone()
        } else {
            "<non-string panic>".to_string()
        };
        let loc = info
            .location()
            .map(|l| format!("{}:{}:{}", l.file(), l.line(), l.column()))
            .unwrap_or_default();
        LAST_PANIC.with(|p| *p.borrow_mut() = Some((msg, loc)));
    }));
}

fn dispatch(req: &J) -> J {
    match req.get("op").and_then(J::as_str).unwrap_or("") {
        "ping" => json!({"pong": true}),
        "lex" => misc::op_lex(req),
        "parse" => misc::op_parse(req),
        "eval" => evalop::op_eval(req),
        "evalmany" => evalop::op_evalmany(req),
        "value" => evalop::op_value(req),
        "session" => evalop::op_session(req),
        "fsession" => frontop::op_fsession(req),
        "spans" => misc::op_spans(req),
        "gcscript" => misc::op_gcscript(req),
        "gcenum" => misc::op_gcenum(req),
        "gcshape" => misc::op_gcshape(req),
        "oracle" => {
            let name = req.get("name").and_then(J::as_str).unwrap_or("");
            match dump::hex_decode(req.get("hex").and_then(J::as_str).unwrap_or("")) {
                Ok(data) => {
                    oracles::run(name, &data);
                    json!({"ok": true})
                }
                Err(e) => json!({"bad_request": e}),
            }
        }
        other => json!({"bad_request": format!("unknown op {other:?}")}),
    }
}

/// Handles one request; a panic inside the tested code is reported as `{"panic": ...}`.
pub fn handle(req: &J) -> J {
    LAST_PANIC.with(|p| *p.borrow_mut() = None);
    match std::panic::catch_unwind(std::panic::AssertUnwindSafe(|| dispatch(req))) {
        Ok(j) => j,
        Err(_) => {
            let (msg, loc) = LAST_PANIC.with(|p| p.borrow_mut().take()).unwrap_or_default();
            json!({"panic": {"msg": msg, "loc": loc}})
        }
    }
}
