"""C04 - evaluation is call-by-need: unused parts never run, used parts run once."""
import copy

from hypothesis import strategies as st

from ..core import Check, Violation
from ..gen import printer as P
from ..gen import programs as G
from ..gen import values as V
from .. import util
from .c09 import positions
from .c15 import chooser

PROPERTY = "C04"
RULE = ("generated programs (type-directed generator) with std.trace wrappers placed at generated nodes; (1) dead code "
        "added at a generated position (unused local / object local / hidden field / defaulted parameter / named argument "
        "to an unused parameter / unindexed array element / unselected object field / untaken branch / short-circuited "
        "operand), the dead part being `error \"DEAD\"` or std.trace(\"DEAD\", 0): outcome unchanged, no DEAD trace; (2) a "
        "sub-expression replaced by (local v = e; v), (function(x) x)(e), [e][0], {f: e}.f (outside objects): same value or "
        "same error and the same sequence of trace messages; (3) single thunks wrapped in std.trace and used k >= 0 times "
        "through different paths (variable, self.f, $.f, index, parameter, default argument, comprehension variable, "
        "super.f, object local shared by several members, object assert + field): the trace count is 0 for k = 0 and 1 "
        "otherwise. Non-trivial = the change sits under >= 1 binder other than the top level, or in a lazily evaluated "
        "position; distinct by SHA-1 of the case")


def mentions_dollar(t):
    if isinstance(t, dict):
        return t.get("k") == "dollar" or any(mentions_dollar(v) for v in t.values())
    if isinstance(t, list):
        return any(mentions_dollar(v) for v in t)
    return False


def trace_call(label, e):
    return G.std_call("trace", {"k": "string", "v": label}, e)


DEAD_ERR = {"k": "error", "e": {"k": "string", "v": "DEAD"}}
DEAD_TRACE = trace_call("DEAD", {"k": "number", "text": "0"})


def run(tree, choices, parens="minimal", spacing="normal"):
    text, _ = P.print_tree(tree, chooser(choices), parens, spacing)
    r = util.request({"op": "eval", "src": text, "want": ["multi"], "fuel": 3_000_000, "max_stack": 2000}, what=text[:400])
    return text, r


def outcome(r):
    traces = tuple(t if isinstance(t, str) else str(t) for t in r.get("traces", []))
    if "ok" in r:
        return ("ok", r["ok"]["multi"]), traces
    e = r["err"]
    if e.get("fuel"):
        return ("fuel",), traces
    d = e.get("detail") or {}
    return ("err", e["variant"], d.get("message") if isinstance(d, dict) else None), traces


def add_traces(tree, sels):
    """Wraps some nodes in std.trace("t<i>", node)."""
    tree = copy.deepcopy(tree)
    wrapper = {"k": "paren", "e": tree}
    for i, s in enumerate(sels):
        pos = positions(wrapper)
        c, k, io, d = pos[s % len(pos)]
        c[k] = trace_call(f"t{i}", c[k])
    return wrapper["e"]


@st.composite
def dead_case(draw):
    c = draw(G.programs(max_depth=draw(st.sampled_from([3, 4]))))
    c["trace_sels"] = draw(st.lists(st.integers(0, 10_000), max_size=3))
    c["kind"] = draw(st.sampled_from(["local", "branch-else", "branch-then", "shortcircuit-or", "shortcircuit-and", "array-elem", "object-field", "hidden-field",
                                      "object-local", "default-param", "named-unused", "if-cond-dead", "unused-func-body", "length-only", "objectfields-only"]))
    c["dead"] = draw(st.sampled_from(["error", "trace"]))
    c["sel"] = draw(st.integers(0, 10_000))
    c["choices"] = draw(st.lists(st.integers(0, 1000), min_size=6, max_size=20))
    return c


def insert_dead(tree, kind, dead, sel):
    tree = copy.deepcopy(tree)
    wrapper = {"k": "paren", "e": tree}
    D = copy.deepcopy(DEAD_ERR if dead == "error" else DEAD_TRACE)
    num = lambda n: {"k": "number", "text": str(n)}
    if kind in ("hidden-field", "object-local"):
        from .c09 import find_nodes
        objs = find_nodes(wrapper, lambda n: n.get("k") == "members")
        if not objs:
            return None, 0
        n = objs[sel % len(objs)]
        if kind == "hidden-field":
            n["members"].append({"k": "field", "name": {"k": "ident", "name": "dead_h"}, "plus": False, "vis": "::", "value": D})
        else:
            n["members"].insert(0, {"k": "local", "bind": {"name": "dead_q", "params": None, "value": D}})
        return wrapper["e"], 2
    pos = positions(wrapper)
    c, k, io, d = pos[sel % len(pos)]
    E = c[k]
    fld = lambda name, value, vis=":": {"k": "field", "name": {"k": "ident", "name": name}, "plus": False, "vis": vis, "value": value}
    if kind == "local":
        new = {"k": "local", "binds": [{"name": "dead_q", "params": None, "value": D}], "body": E}
    elif kind == "branch-else":
        new = {"k": "if", "cond": {"k": "bool", "v": True}, "then": E, "else": D}
    elif kind == "branch-then":
        new = {"k": "if", "cond": {"k": "bool", "v": False}, "then": D, "else": E}
    elif kind == "shortcircuit-or":
        new = {"k": "if", "cond": {"k": "binary", "op": "LogicOr", "l": {"k": "bool", "v": True}, "r": D}, "then": E, "else": {"k": "null"}}
    elif kind == "shortcircuit-and":
        new = {"k": "if", "cond": {"k": "binary", "op": "LogicAnd", "l": {"k": "bool", "v": False}, "r": D}, "then": {"k": "null"}, "else": E}
    elif kind == "array-elem":
        new = {"k": "index", "e": {"k": "array", "items": [D, E, D]}, "index": num(1)}
    elif kind == "object-field":
        new = {"k": "field", "name": "live", "e": {"k": "object", "inside": {"k": "members", "members": [fld("dead_f", D), fld("live", E) if not io else fld("live", E)]}}}
        if io or mentions_dollar(E):
            # E may mention self / super / $: a new object would rebind them ($ is the outermost enclosing object)
            new = {"k": "index", "e": {"k": "array", "items": [E, D]}, "index": num(0)}
    elif kind == "default-param":
        new = {"k": "call", "f": {"k": "func", "params": [{"name": "live_p", "default": None}, {"name": "dead_p", "default": D}], "body": {"k": "ident", "name": "live_p"}},
               "args": [{"name": None, "e": E}], "tailstrict": False}
    elif kind == "named-unused":
        new = {"k": "call", "f": {"k": "func", "params": [{"name": "live_p", "default": None}, {"name": "dead_p", "default": {"k": "null"}}], "body": {"k": "ident", "name": "live_p"}},
               "args": [{"name": "dead_p", "e": D}, {"name": "live_p", "e": E}], "tailstrict": False}
    elif kind == "if-cond-dead":
        new = {"k": "local", "binds": [{"name": "dead_q", "params": None, "value": {"k": "if", "cond": D, "then": num(1), "else": num(2)}}], "body": E}
    elif kind == "unused-func-body":
        new = {"k": "local", "binds": [{"name": "dead_fn", "params": [{"name": "z", "default": None}], "value": D}], "body": E}
    elif kind == "length-only":
        # the array is only measured: its elements never run
        new = {"k": "if", "cond": {"k": "binary", "op": "Eq", "l": G.std_call("length", {"k": "array", "items": [D, D]}), "r": num(2)}, "then": E, "else": {"k": "null"}}
    else:
        obj = {"k": "object", "inside": {"k": "members", "members": [fld("dead_f", D), fld("g", D, "::")]}}
        cond = {"k": "binary", "op": "LogicAnd", "l": {"k": "binary", "op": "Eq", "l": G.std_call("objectFields", obj), "r": {"k": "array", "items": [{"k": "string", "v": "dead_f"}]}},
                "r": {"k": "binary", "op": "In", "l": {"k": "string", "v": "g"}, "r": copy.deepcopy(obj)}}
        new = {"k": "if", "cond": cond, "then": E, "else": {"k": "null"}}
    c[k] = new
    return wrapper["e"], d


def check_dead(case):
    base = add_traces(case["tree"], case["trace_sels"])
    t0, r0 = run(base, case["choices"])
    o0, tr0 = outcome(r0)
    if o0[0] == "fuel":
        return {"labels": ["fuel"]}
    new, depth = insert_dead(base, case["kind"], case["dead"], case["sel"])
    if new is None:
        return {"labels": ["not-applicable"]}
    t1, r1 = run(new, case["choices"])
    o1, tr1 = outcome(r1)
    if any("DEAD" in t for t in tr1) or (o1[0] == "err" and o1[2] == "DEAD"):
        raise Violation(f"dead-code-evaluated:{case['kind']}", f"an unused {case['kind']} was evaluated: {t1[:600]!r} (outcome {o1}, traces {tr1})")
    if o1 != o0:
        raise Violation(f"dead-code-changes-outcome:{case['kind']}", f"adding an unused {case['kind']} changed the outcome from {str(o0)[:200]} to {str(o1)[:200]}: {t0[:300]!r} -> {t1[:400]!r}")
    if tr1 != tr0:
        raise Violation(f"dead-code-changes-traces:{case['kind']}", f"adding an unused {case['kind']} changed the trace output {tr0} -> {tr1}: {t1[:500]!r}")
    return {"nontrivial": depth >= 2, "labels": [case["kind"], o0[0]], "sample": t1[:300]}


# ---------------------------------------------------------------------------------------------
# (2) rewrites

# leaves with an outcome of their own (most of them fail): whatever shortcut an implementation takes for "simple" expressions in
# delayed positions, moving such a leaf into a local / argument / element / field must not change what happens
_N = lambda t: {"k": "number", "text": t}
_S = lambda v: {"k": "string", "v": v}
SPECIAL_LEAVES = [
    _N("1e400"), _N("1e309"), _N("17976931348623158e292"), {"k": "unary", "op": "Minus", "e": _N("1e400")}, _N("1e308"), _N("5e-324"), _N("1e-400"),
    {"k": "error", "e": _S("E")}, {"k": "error", "e": {"k": "array", "items": [_N("1")]}},
    {"k": "binary", "op": "Div", "l": _N("1"), "r": _N("0")}, {"k": "binary", "op": "Rem", "l": _N("1"), "r": _N("0")},
    {"k": "binary", "op": "Mul", "l": _N("1e308"), "r": _N("10")}, {"k": "binary", "op": "Sub", "l": _S("a"), "r": _N("1")},
    {"k": "index", "e": {"k": "array", "items": []}, "index": _N("0")}, {"k": "field", "name": "a", "e": {"k": "object", "inside": {"k": "members", "members": []}}},
    {"k": "field", "name": "f", "e": {"k": "null"}}, {"k": "assert", "assert": {"cond": {"k": "bool", "v": False}, "msg": _S("A")}, "body": _N("1")},
    {"k": "unary", "op": "LogicNot", "e": _N("1")}, {"k": "binary", "op": "LogicAnd", "l": {"k": "bool", "v": True}, "r": _N("1")},
    {"k": "string", "v": ""}, {"k": "null"}, {"k": "bool", "v": True}, {"k": "array", "items": []}, {"k": "object", "inside": {"k": "members", "members": []}},
    {"k": "func", "params": [{"name": "rw_p", "default": None}], "body": {"k": "ident", "name": "rw_p"}},
]


@st.composite
def rewrite_case(draw):
    c = draw(G.programs(max_depth=draw(st.sampled_from([3, 4]))))
    c["leaf"] = [draw(st.integers(0, len(SPECIAL_LEAVES) - 1)), draw(st.integers(0, 10_000)), draw(st.booleans())] if draw(st.integers(0, 2)) == 0 else None
    c["trace_sels"] = draw(st.lists(st.integers(0, 10_000), min_size=1, max_size=4))
    c["rewrites"] = draw(st.lists(st.tuples(st.sampled_from(["local", "identity", "array", "object", "paren", "if-true", "thunk-twice"]), st.integers(0, 10_000)), min_size=1, max_size=3))
    c["choices"] = draw(st.lists(st.integers(0, 1000), min_size=6, max_size=20))
    return c


def apply_rewrite(tree, kind, sel, uid=0):
    tree = copy.deepcopy(tree)
    wrapper = {"k": "paren", "e": tree}
    pos = positions(wrapper)
    c, k, io, d = pos[sel % len(pos)]
    E = c[k]
    name = f"rw_v{uid}"  # a fresh name per rewrite: E may contain the variable of an earlier rewrite
    v = {"k": "ident", "name": name}
    if kind == "local":
        new = {"k": "local", "binds": [{"name": name, "params": None, "value": E}], "body": v}
    elif kind == "identity":
        new = {"k": "call", "f": {"k": "func", "params": [{"name": name, "default": None}], "body": v}, "args": [{"name": None, "e": E}], "tailstrict": False}
    elif kind == "array":
        new = {"k": "index", "e": {"k": "array", "items": [E]}, "index": {"k": "number", "text": "0"}}
    elif kind == "object":
        if io or mentions_dollar(E):
            new = {"k": "paren", "e": E}
        else:
            new = {"k": "field", "name": "rw_f", "e": {"k": "object", "inside": {"k": "members", "members": [
                {"k": "field", "name": {"k": "ident", "name": "rw_f"}, "plus": False, "vis": ":", "value": E}]}}}
    elif kind == "paren":
        new = {"k": "paren", "e": {"k": "paren", "e": E}}
    elif kind == "if-true":
        new = {"k": "if", "cond": {"k": "bool", "v": True}, "then": E, "else": {"k": "null"}}
    else:
        # name it and use the name twice where the value is needed once: still one evaluation
        new = {"k": "local", "binds": [{"name": name, "params": None, "value": E}], "body": {"k": "if", "cond": {"k": "binary", "op": "Eq", "l": G.std_call("type", v), "r": G.std_call("type", v)},
                                                                                                  "then": v, "else": {"k": "null"}}}
    c[k] = new
    return wrapper["e"], d, io


def check_rewrite(case):
    tree = case["tree"]
    first_sel = None
    if case.get("leaf"):
        li, lsel, at_leaf = case["leaf"]
        tree = copy.deepcopy(tree)
        wrapper = {"k": "paren", "e": tree}
        pos = positions(wrapper)
        c, k, _, _ = pos[lsel % len(pos)]
        c[k] = copy.deepcopy(SPECIAL_LEAVES[li])
        tree = wrapper["e"]
        if at_leaf:
            # the first rewrite is applied to the special leaf itself (positions are listed in a fixed order)
            first_sel = next(i for i, (cc, kk, _, _) in enumerate(positions({"k": "paren", "e": tree})) if cc[kk] == SPECIAL_LEAVES[li] and i >= 0)
    base = add_traces(tree, [] if first_sel is not None else case["trace_sels"])
    t0, r0 = run(base, case["choices"])
    o0, tr0 = outcome(r0)
    if o0[0] == "fuel":
        return {"labels": ["fuel"]}
    new = base
    depth = 0
    kinds = []
    for uid, (kind, sel) in enumerate(case["rewrites"]):
        if uid == 0 and first_sel is not None:
            sel = first_sel
        new, d, io = apply_rewrite(new, kind, sel, uid)
        depth = max(depth, d)
        kinds.append(kind)
    t1, r1 = run(new, case["choices"])
    o1, tr1 = outcome(r1)
    if o1 != o0:
        raise Violation("rewrite-changes-outcome:" + kinds[0], f"rewrites {kinds} changed the outcome from {str(o0)[:200]} to {str(o1)[:200]}: {t0[:300]!r} -> {t1[:400]!r}")
    if "thunk-twice" in kinds:
        # forcing a thunk early may legitimately reorder traces; counts must still agree
        if sorted(tr0) != sorted(tr1):
            raise Violation("rewrite-changes-trace-count", f"rewrites {kinds} changed how often parts run: {sorted(tr0)} -> {sorted(tr1)}: {t1[:500]!r}")
    elif tr1 != tr0:
        raise Violation("rewrite-changes-traces:" + kinds[0], f"rewrites {kinds} changed the trace sequence {tr0} -> {tr1}: {t0[:300]!r} -> {t1[:400]!r}")
    return {"nontrivial": depth >= 2 or first_sel is not None, "labels": kinds[:2] + [o0[0]] + (["special-leaf"] if case.get("leaf") else []), "sample": t1[:300]}


# ---------------------------------------------------------------------------------------------
# (3) at most once / exactly once

ONCE = [
    # (template with {T} = traced thunk, {U} = a use count selector 0..3), expected count as a function of k
    ("local x = {T}; [{USES}]", "x"),
    ("local o = {{a: {T}, b: self.a, c: [self.a, $.a]}}; [{USES_O}]", None),
    ("local arr = [{T}, 0]; [{USES_ARR}]", None),
    ("(function(p) [{USES_P}])({T})", "p"),
    ("(function(q, p={T}) [{USES_P}])(0)", "p"),
    ("[[{USES_X}] for x in [{T}] for y in [1, 2, 3]]", "x"),
    ("local base = {{a: {T}}}; local d = base + {{b: super.a, c: [super.a], e: self.a}}; [{USES_D}]", None),
    ("{{local x = {T}, a: [{USES}], b: [{USES}], [\"c\"]: [{USES}]}}", "x"),
    ("local o = {{local n = {T}, assert std.type(n) != 'function', assert std.type(n) != 'nothing', k: 1, v:: [{USES_N}]}}; [o.k, o.v, o.v]", "n"),
    ("local f(x) = [{USES}]; f({T})", "x"),
    ("local t = {T}; local g() = t; [g(), g(), {USES_T}]", "t"),
    ("local o = {{a: {T}}}; local p = o {{b: 1}}; [{USES_PO}]", None),
    ("std.map(function(x) [{USES}], [{T}])", "x"),
    ("local a = std.makeArray(2, function(i) {T}); [a[0], a[0], a[0]]", None),
    ("local o = {{[k]: {T} for k in ['a']}}; [o.a, o.a, o['a']]", None),
    ("local o = {{a+: [{T}]}}; [o.a, o.a]", None),
    ("local o = {{a: [0]}} + {{a+: [{T}]}}; [o.a, o.a, o.a]", None),
    ("local x = {T}; std.foldl(function(acc, i) acc + [x], [1, 2, 3], [])", None),
    ("local x = {T}; {{a: x, b: x}} == {{a: x, b: x}}", None),
    ("local x = {T}; std.toString([x, x]) + std.toString(x)", None),
]


@st.composite
def once_case(draw):
    return {"t": draw(st.integers(0, len(ONCE) - 1)), "k": draw(st.integers(0, 3)), "value": draw(V.typed_values(max_leaves=3)), "gc": draw(st.sampled_from(["default", "every1"]))}


def check_once(case):
    tmpl, var = ONCE[case["t"]]
    k = case["k"]
    T = f"std.trace('T', {V.to_jsonnet(case['value'])})"

    def uses(expr):
        return ", ".join([expr] * k) if k else "0"

    src = tmpl.format(T=T, USES=uses(var or "x"), USES_O=uses("o.b") if k != 2 else "o.a, o.c", USES_ARR=uses("arr[0]"), USES_P=uses("p"), USES_X=uses("x"),
                      USES_D=uses("d.b") if k != 2 else "d.c, d.e", USES_N=uses("n"), USES_T=uses("t"), USES_PO=uses("p.a") if k != 3 else "o.a, p.a, p.a")
    req = {"op": "eval", "src": src, "want": ["multi"], "fuel": 2_000_000}
    if case["gc"] == "every1":
        req["gc"] = {"mode": "every", "n": 1}
    r = util.request(req, what=src)
    if "ok" not in r:
        if r["err"].get("variant") == "ManifestFunction":
            return {}
        raise Violation("once-template-failed", f"{src} failed: {r['err']}")
    n = sum(1 for t in r.get("traces", []) if t == "T")
    forced = "{USES" not in tmpl or any(x in tmpl for x in ("assert std.type(n)", "g(), g()"))
    always = forced or tmpl.count("{USES") == 0
    if always:
        exp = 1
    else:
        exp = 0 if k == 0 else 1
    # comprehension template: the variable is bound once per element, the body thunks run per (x, y) pair
    if "USES_PO" in tmpl and k == 3:
        exp = 2  # o and `o {b: 1}` are two objects: the field is one delayed expression per object
    if n != exp:
        raise Violation("evaluated-not-once", f"the traced thunk ran {n} times (expected {exp}) in {src}")
    return {"nontrivial": k >= 2 or exp == 0, "labels": [f"k={k}", f"template{case['t']}"], "sample": src}


# ---------------------------------------------------------------------------------------------
# (4) containers are lazy through the operations that only move elements around: a DEAD neighbour (element, field, default,
# unused argument) is never evaluated when only E is consumed, and a DEAD element is never evaluated when only the size / the
# names / the type of the container is asked for. (D = dead expression, E = the live one. A fold forces the *result* of each
# step by definition, so only arguments the folding function ignores are dead.)
LAZY = [
 "([D, E] + [D])[1]", "([D] + [E, D])[1]", "[D, E, D][1:2][0]", "[D, E, D][1:][0]", "[D, E, D][:2][1]", "[D, E, D, E][1::2][0]", "std.reverse([D, E])[0]",
 "std.map(function(x) x, [D, E])[1]", "std.map(function(x) [x], [D, E])[1][0]", "std.mapWithIndex(function(i, x) x, [D, E])[1]",
 "std.makeArray(2, function(i) if i == 0 then D else E)[1]", "std.repeat([D, E], 2)[3]", "[x for x in [D, E]][1]", "[[x, y] for x in [D, E] for y in [D]][1][0]",
 "[std.length([D, D]), E][1]", "std.filter(function(x) true, [D, E])[1]", "std.slice([D, E, D], 1, 2, 1)[0]", "std.flattenArrays([[D], [E]])[1]", "std.join([], [[D], [E]])[1]",
 "std.get({a: E}, 'a', D)", "std.get({a: D}, 'b', E)", "std.objectValues({a: D, b: E})[1]", "std.objectValuesAll({a:: D, b: E})[1]", "std.objectKeysValues({a: D, b: E})[1].value",
 "({a: D} + {b: E}).b", "({a: D, b: D} + {b: E}).b", "{a: D, b: E}.b", "{a: D, b: E}['b']", "std.objectRemoveKey({a: D, b: E}, 'a').b", "std.objectRemoveKey({a: D, b: E}, 'c').b",
 "std.mapWithKey(function(k, v) v, {a: D, b: E}).b", 
 "std.sort([{k: 2, v: D}, {k: 1, v: E}], function(o) o.k)[0].v", "std.uniq([{k: 1, v: E}, {k: 1, v: D}], function(o) o.k)[0].v", "std.set([{k: 2, v: D}, {k: 1, v: E}], function(o) o.k)[0].v",
 "std.minArray([{k: 2, v: D}, {k: 1, v: E}], function(o) o.k).v", "std.maxArray([{k: 2, v: E}, {k: 1, v: D}], function(o) o.k).v",
 "[std.objectFields({a: D}), E][1]", "[std.objectHas({a: D}, 'a'), E][1]", "['a' in {a: D}, E][1]", "[std.length({a: D}), E][1]", "[std.type([D]), E][1]", "[std.isArray([D]), std.isObject({a: D}), E][2]",
 "[std.length(function(x=D) x), E][1]", "std.trace('m', E)", "(function(a, b) b)(D, E)", "(function(a=D, b=E) b)()", "local a = D, b = E; b", "local f(x) = E; f(D)",
 "{a: D, b: E, c: self.b}.c", "{local a = D, b: E}.b", "{a: D, b:: E}.b", "[D, E][std.length([D])]", "if true then E else D", "if false then D else E", "if true || D then E", "if false && D then D else E",
 "std.setMember(1, [1]) && true || D", "std.all([]) || D", "std.objectFieldsAll({a:: D, b: E}) == ['a', 'b'] || D",
 "std.mergePatch({a: 1}, {b: 2}).b * 0 + 1 == 1 || D", "std.member([1], 1) || D", "std.find(1, [1]) == [0] || D",
 "std.objectValues(std.objectRemoveKey({a: D, b: E}, 'a'))[0]", "std.reverse([D, E] + [D])[1]", "std.repeat([D], 3)[1:2] == [] || true", "std.length(std.repeat([D], 3)) == 3 || D",
 "std.length([D for x in [1, 2]]) == 2 || D", "std.length({[k]: D for k in ['a', 'b']}) == 2 || D", "std.length(std.map(function(x) D, [1, 2])) == 2 || D", "std.length(std.makeArray(3, function(i) D)) == 3 || D",
 "std.length([D] + [D]) == 2 || D", "std.length([D, D][1:]) == 1 || D", "std.length(std.reverse([D, D])) == 2 || D", "std.length(std.objectValues({a: D})) == 1 || D",
 "std.length(std.flattenArrays([[D], [D]])) == 2 || D", "std.length(std.filter(function(x) true, [D, D])) == 2 || D", "std.length(std.mapWithIndex(function(i, x) D, [1])) == 1 || D",
 "std.range(1, 3)[1] == 2 || D", "std.length(std.flatMap(function(x) [D], [1, 2])) == 2 || D", "std.length(std.filterMap(function(x) true, function(x) D, [1, 2])) == 2 || D",
 "std.length(std.mapWithKey(function(k, v) D, {a: 1})) == 1 || D", "std.length(std.objectKeysValues({a: D})) == 1 || D", "std.length(std.slice([D, D, D], 0, 2, 1)) == 2 || D",
 "std.length(std.sort([D])) == 1 || D", "std.length(std.uniq([D])) == 1 || D", "std.length(std.set([D])) == 1 || D", "std.length(std.join([D], [[1], [2]])) == 3 || D",
 "std.length(std.remove([1, D], 1)) == 1 || D", "std.length(std.removeAt([D, D], 0)) == 1 || D",
 # callbacks that ignore a parameter: what is passed for it is never evaluated (the initial value and the elements of a fold, the
 # elements behind a constant key function, the value behind a key-only mapping, elements after the deciding one)
 "std.foldl(function(acc, x) E, [D, D], D)", "std.foldr(function(x, acc) E, [D, D], D)", "std.foldl(function(acc, x) acc, [D, D], E)", "std.foldr(function(x, acc) acc, [D, D], E)",
 "std.foldl(function(acc, x) acc, [], E)", "std.foldr(function(x, acc) acc, [], E)", "std.foldl(function(acc, x) acc + 1, [D, D], 0) == 2 || D", "std.foldr(function(x, acc) acc + 1, [D, D], 0) == 2 || D",
 "std.length(std.sort([D, D], function(x) 1)) == 2 || D", "std.length(std.set([D, D], function(x) 1)) == 1 || D", "std.length(std.uniq([D, D], function(x) 1)) == 1 || D",
 "std.length(std.filter(function(x) false, [D, D])) == 0 || D", "std.length(std.filterMap(function(x) false, function(x) D, [D])) == 0 || D",
 "std.mapWithKey(function(k, v) k, {a: D}).a == 'a' || D", "std.map(function(x) E, [D])[0]", "std.flatMap(function(x) [E], [D])[0]", "std.makeArray(1, function(i) E)[0]",
 "std.any([true, D]) || D", "std.all([false, D]) || true", "std.member([1, D], 1) || D", "std.contains([1, D], 1) || D",
 "std.length(std.setUnion([D], [], function(x) 1)) == 1 || D", "std.length(std.setInter([D], [], function(x) 1)) == 0 || D",
 "std.get({a: E, b: D}, 'a')", "std.mapWithIndex(function(i, x) i, [D, D])[1] == 1 || D", "std.objectKeysValues({a: D})[0].key == 'a' || D",
 "std.slice([D, E], 1, null, null)[0]", "std.length(std.slice([D, D], null, null, 2)) == 1 || D",
 # the same element-wise builtins over the characters of a string
 "std.length(std.map(function(c) D, 'ab')) == 2 || D", "std.map(function(c) if c == 'a' then D else E, 'ab')[1]", "std.map(function(c) E, 'a')[0]",
 "std.length(std.map(function(c) D, std.stringChars('ab'))) == 2 || D", "std.length(std.mapWithIndex(function(i, c) D, std.stringChars('ab'))) == 2 || D",
 # formatting consumes what its directives use: a '*' precision that the conversion ignores, object fields no directive names
 "std.length('%.*s' % [D, 'abc']) == 3 || D", "std.length('%.*c' % [D, 'a']) == 1 || D", "'%(a)s' % {a: 'x', b: D} == 'x' || D", "std.format('%(a)d|%(a)s', {a: 1, zz: D}) == '1|1' || D",
 "'%%' % [] == '%' || D", "std.length('%5.*s' % [D, 'ab']) == 5 || D",
]


@st.composite
def lazy_case(draw):
    return {"t": draw(st.integers(0, len(LAZY) - 1)), "dead": draw(st.sampled_from(["error", "trace"])),
            "live": draw(st.one_of(V.typed_values(max_leaves=3), st.just("ERROR")))}


def check_lazy(case):
    tmpl = LAZY[case["t"]]
    d = "error 'DEAD'" if case["dead"] == "error" else "std.trace('DEAD', null)"
    e = "error 'LIVE'" if case["live"] == "ERROR" else "(" + V.to_jsonnet(case["live"]) + ")"
    src = tmpl.replace("D", "\0").replace("E", e).replace("\0", d)
    r = util.request({"op": "eval", "src": src, "want": ["multi", "typed"], "fuel": 1_000_000}, what=src)
    r0 = util.request({"op": "eval", "src": e, "want": ["multi", "typed"], "fuel": 1_000_000}, what=e)
    dead_traces = [t for t in r.get("traces", []) if "DEAD" in str(t)]
    if dead_traces or ("err" in r and r["err"].get("variant") == "ExplicitError" and r["err"]["detail"]["message"] == "DEAD"):
        raise Violation("dead-element-evaluated", f"an element / field / argument nothing depends on was evaluated in {src}")
    guard = tmpl.endswith("|| D") or tmpl.endswith("|| true")
    if guard:
        if "ok" not in r or r["ok"]["multi"].strip() != "true":
            raise Violation("lazy-container-outcome", f"{src}: expected true, got {str(r)[:300]}")
    elif "E" in tmpl:
        if ("ok" in r) != ("ok" in r0):
            raise Violation("lazy-container-outcome", f"{src}: outcome {str(r)[:200]} differs from the live expression's own outcome {str(r0)[:200]}")
        if "ok" in r and r["ok"]["multi"] != r0["ok"]["multi"]:
            raise Violation("lazy-container-outcome", f"{src} = {r['ok']['multi'][:200]}, the live expression alone = {r0['ok']['multi'][:200]}")
        if "err" in r and (r["err"]["variant"], r["err"].get("detail")) != (r0["err"]["variant"], r0["err"].get("detail")):
            raise Violation("lazy-container-outcome", f"{src}: error {r['err']['variant']} {r['err'].get('detail')}, the live expression alone {r0['err']['variant']} {r0['err'].get('detail')}")
    return {"nontrivial": True, "labels": [tmpl[:20]], "sample": src[:200]}


# (5) a delayed expression reached through several containers derived from one another (reversed, sliced, concatenated, mapped,
# sorted, formatted, manifested ...) is still one delayed expression: it runs once
SHARED = [
 "local a = [T]; [a[0], std.reverse(a)[0], (a + [])[0], a[0:1][0], ([] + a)[0]]",
 "local a = [T]; [std.map(function(x) x, a)[0], a[0]]",
 "local a = [T]; local b = std.map(function(x) x + 1, a); [b[0], b[0], b[0]]",
 "local a = [T]; local b = std.repeat(a, 3); [b[0], b[1], b[2], a[0]]",
 "local a = [T]; local b = [x for x in a]; [b[0], a[0], b[0]]",
 "local a = [T, 1]; local b = std.filter(function(x) true, a); [b[0], a[0]]",
 "local a = [[T]]; local b = std.flattenArrays(a); [b[0], a[0][0]]",
 "local o = {a: T}; [o.a, std.objectValues(o)[0], std.get(o, 'a'), o['a'], std.objectKeysValues(o)[0].value]",
 "local o = {a: T}; local p = std.objectRemoveKey(o + {b: 1}, 'b'); [p.a, p.a]",
 "local o = {a: T}; local p = std.mapWithKey(function(k, v) v, o); [p.a, p.a, o.a]",
 "local o = {a: T}; [o == o, o.a]",
 "local a = [T]; [a == a, a[0], std.toString(a), std.manifestJson(a)]",
 "local a = std.makeArray(1, function(i) T); [a[0], std.reverse(a)[0], a[0]]",
 "local f = function(x) [x, x]; local r = f(T); [r[0], r[1], r]",
 "local a = [T]; std.sort(a + a + a)",
 "local a = [T]; [std.foldl(function(acc, x) acc + x, a + a, 0), a[0]]",
 "local a = [T]; [std.length(a), std.count(a, 5), std.member(a, 5), std.sum(a), a[0]]",
 "local a = [T]; local b = std.slice(a, 0, 1, 1); [b[0], a[0]]",
 "local a = [T]; local b = std.join([], [a, a]); [b[0], b[1]]",
 "local x = T; local o = {a: x, b: x, c: self.a}; [o, o.c, x]",
 "local o = {a: T, b: self.a}; local p = o + {c: super.a}; [p.c, p.b, p.a]",
 "local x = T; std.mergePatch({a: x}, {b: x})",
 "local x = T; std.prune([x, [x], {a: x}])",
 "local x = T; [std.format('%d %d', [x, x]), '%(a)d' % {a: x}]",
 "local a = [T]; std.set(a + a) + std.uniq(a + a)",
 "local a = [T]; std.setUnion(a, a) + std.setInter(a, a)",
 "local x = T; std.minArray([x, x]) + std.maxArray([x, x])",
 "local o = {a: T}; std.manifestJsonEx(o, ' ') + std.manifestYamlDoc(o) + std.toString(o) + std.manifestPython(o)",
]


def enum_shared(tier, worker, nworkers):
    k = 0
    for i in range(len(SHARED)):
        for gc in ("default", "every1", "every7"):
            k += 1
            if k % nworkers == worker:
                yield {"t": i, "gc": gc}


def check_shared(case):
    src = SHARED[case["t"]].replace("T", "std.trace('T', 5)")
    req = {"op": "eval", "src": src, "want": ["multi"], "fuel": 2_000_000}
    if case["gc"] != "default":
        req["gc"] = {"mode": "every", "n": int(case["gc"][5:])}
    r = util.request(req, what=src)
    if "ok" not in r:
        raise Violation("once-template-failed", f"{src} failed: {r['err']}")
    n = sum(1 for t in r.get("traces", []) if t == "T")
    if n != 1:
        raise Violation("evaluated-not-once", f"the traced thunk ran {n} times (expected 1) in {src}")
    return {"nontrivial": True, "labels": [case["gc"]], "sample": src[:200]}


# (6) an imported file is one delayed expression too, whichever file imports it and however the path is spelled
IMP_DIRS = [".", "a", "b", "a/deep", "common"]


@st.composite
def import_once_case(draw):
    k = draw(st.integers(2, 5))
    return {"importers": [[draw(st.integers(0, len(IMP_DIRS) - 1)), draw(st.integers(0, 3))] for _ in range(k)], "target_dir": draw(st.integers(0, len(IMP_DIRS) - 1)),
            "kind": draw(st.sampled_from(["import", "import", "importstr"]))}


def check_import_once(case):
    import os
    import tempfile
    from ..engine import run_cli
    with tempfile.TemporaryDirectory(prefix="c04i-") as root:
        root = os.path.realpath(root)
        for d in IMP_DIRS:
            os.makedirs(os.path.join(root, d), exist_ok=True)
        target = os.path.normpath(os.path.join(root, IMP_DIRS[case["target_dir"]], "shared.libsonnet"))
        with open(target, "w") as f:
            f.write("std.trace('SHARED-EVALUATED', {v: 1})")
        items = []
        for n, (di, how) in enumerate(case["importers"]):
            d = os.path.normpath(os.path.join(root, IMP_DIRS[di]))
            rel = os.path.relpath(target, d)
            if how == 1:
                rel = "./" + rel
            elif how == 2 and d != root:
                rel = os.path.join("..", os.path.basename(d), rel)
            elif how == 3:
                rel = target
            name = f"imp{n}.libsonnet"
            with open(os.path.join(d, name), "w") as f:
                f.write("(import '%s').v" % rel)
            items.append("import '%s'" % os.path.relpath(os.path.join(d, name), root))
        main = "[" + ", ".join(items) + "]"
        with open(os.path.join(root, "main.jsonnet"), "w") as f:
            f.write(main)
        rc, out, err = run_cli(["main.jsonnet"], cwd=root)
        text = err.decode("utf-8", "replace")
        what = f"{len(items)} importers {case['importers']} of {os.path.relpath(target, root)}"
        if rc != 0:
            raise Violation("import-once-failed", f"{what}: exit {rc}: {text[-300:]}")
        import re
        n = len(re.findall(r"TRACE: SHARED-EVALUATED", re.sub(r"\x1b\[[0-9;]*m", "", text)))
        if n != 1:
            raise Violation("evaluated-not-once:import", f"a file imported by {what} was evaluated {n} times (expected once)")
    return {"nontrivial": len({tuple(x) for x in case["importers"]}) >= 2, "labels": [f"k={len(items)}"], "sample": what}


CHECKS = [
    Check("dead_code", check_dead, dead_case, quick=300, thorough=10000),
    Check("rewrites", check_rewrite, rewrite_case, quick=300, thorough=10000),
    Check("at_most_once", check_once, once_case, quick=150, thorough=3000),
    Check("lazy_containers", check_lazy, lazy_case, quick=400, thorough=12000),
    Check("once_through_derived_containers", check_shared, enumerate_fn=enum_shared, exhaustive=True),
    Check("imported_file_evaluated_once", check_import_once, import_once_case, quick=20, thorough=600),
]
