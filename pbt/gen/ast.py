"""Generators of syntax trees (shapes as documented in gen/printer.py)."""
from hypothesis import strategies as st

from . import printer as P

IDENTS = ["a", "b", "c", "x", "y", "f", "g", "std", "obj", "arr", "_", "e5", "nulls", "iff"]
FIELD_STRINGS = ["a", "b", "key", "with space", "", "é", "if", "self", "0", "a-b", "ß中"]
STR_VALUES = ["", "a", "abc", "it's", 'say "hi"', "back\\slash", "tab\t", "nl\n", "é中\U0001f600", "%s", "|||", "a//b", "/*x*/", "@'"]
TB_VALUES = ["a\n", "a\nb\n", "a\n\nb\n", "x\n  indented\n", "é\n", "a\n\n", "|||x\n", "a\tb\n", "q'\"\n"]
NUM_TEXTS = ["0", "1", "2", "10", "42", "1.5", "0.25", "1e3", "1E-3", "2.5e+2", "1_000", "1_0.2_5", "123456789012345678901234567890",
             "0.1", "1e308", "5e-324", "0e0", "7.0"]
BINOPS = list(P.BIN_LEVEL)
UNOPS = list(P.UN_TEXT)
VIS = [":", "::", ":::"]


def ident():
    return st.sampled_from(IDENTS)


def leaf():
    return st.one_of(
        st.just({"k": "null"}), st.booleans().map(lambda b: {"k": "bool", "v": b}), st.just({"k": "self"}), st.just({"k": "dollar"}),
        st.sampled_from(STR_VALUES).map(lambda s: {"k": "string", "v": s}),
        st.sampled_from(TB_VALUES).map(lambda s: {"k": "textblock", "v": s}),
        st.sampled_from(NUM_TEXTS).map(lambda s: {"k": "number", "text": s}),
        ident().map(lambda n: {"k": "ident", "name": n}), ident().map(lambda n: {"k": "ident", "name": n}),
        ident().map(lambda n: {"k": "superfield", "name": n}),
    )


@st.composite
def params(draw, sub):
    n = draw(st.integers(0, 3))
    names = draw(st.lists(ident(), min_size=n, max_size=n, unique=True))
    return [{"name": nm, "default": draw(sub) if draw(st.integers(0, 2)) == 0 else None} for nm in names]


@st.composite
def bind(draw, sub):
    b = {"name": draw(ident()), "params": None, "value": draw(sub)}
    if draw(st.integers(0, 3)) == 0:
        b["params"] = draw(params(sub))
    return b


@st.composite
def assert_(draw, sub):
    return {"cond": draw(sub), "msg": draw(sub) if draw(st.booleans()) else None}


@st.composite
def comp_spec(draw, sub):
    spec = [{"k": "for", "var": draw(ident()), "inner": draw(sub)}]
    for _ in range(draw(st.integers(0, 2))):
        if draw(st.booleans()):
            spec.append({"k": "for", "var": draw(ident()), "inner": draw(sub)})
        else:
            spec.append({"k": "if", "cond": draw(sub)})
    return spec


@st.composite
def field_name(draw, sub):
    c = draw(st.integers(0, 3))
    if c <= 1:
        return {"k": "ident", "name": draw(ident())}
    if c == 2:
        return {"k": "string", "name": draw(st.sampled_from(FIELD_STRINGS))}
    return {"k": "expr", "expr": draw(sub)}


@st.composite
def obj_inside(draw, sub):
    if draw(st.integers(0, 3)) == 0:
        return {"k": "comp",
                "locals1": draw(st.lists(bind(sub), max_size=1)),
                "name": draw(sub), "plus": draw(st.booleans()), "body": draw(sub),
                "locals2": draw(st.lists(bind(sub), max_size=1)),
                "spec": draw(comp_spec(sub))}
    members = []
    for _ in range(draw(st.integers(0, 4))):
        c = draw(st.integers(0, 7))
        if c == 0:
            members.append({"k": "local", "bind": draw(bind(sub))})
        elif c == 1:
            members.append({"k": "assert", "assert": draw(assert_(sub))})
        elif c == 2:
            members.append({"k": "method", "name": draw(field_name(sub)), "params": draw(params(sub)),
                            "vis": draw(st.sampled_from(VIS)), "value": draw(sub)})
        else:
            members.append({"k": "field", "name": draw(field_name(sub)), "plus": draw(st.integers(0, 3)) == 0,
                            "vis": draw(st.sampled_from(VIS)), "value": draw(sub)})
    return {"k": "members", "members": members}


def compound(sub):
    opt = st.one_of(st.none(), sub)
    return st.one_of(
        st.builds(lambda op, l, r: {"k": "binary", "op": op, "l": l, "r": r}, st.sampled_from(BINOPS), sub, sub),
        st.builds(lambda op, l, r: {"k": "binary", "op": op, "l": l, "r": r}, st.sampled_from(BINOPS), sub, sub),
        st.builds(lambda op, e: {"k": "unary", "op": op, "e": e}, st.sampled_from(UNOPS), sub),
        st.builds(lambda e: {"k": "insuper", "e": e}, sub),
        st.builds(lambda e, n: {"k": "field", "e": e, "name": n}, sub, ident()),
        st.builds(lambda e, i: {"k": "index", "e": e, "index": i}, sub, sub),
        st.builds(lambda e, a, b, c: {"k": "slice", "e": e, "start": a, "end": b, "step": c}, sub, opt, opt, opt),
        st.builds(lambda i: {"k": "superindex", "index": i}, sub),
        call(sub),
        st.lists(sub, max_size=3).map(lambda items: {"k": "array", "items": items}),
        st.builds(lambda b, s: {"k": "arraycomp", "body": b, "spec": s}, sub, comp_spec(sub)),
        obj_inside(sub).map(lambda i: {"k": "object", "inside": i}),
        st.builds(lambda e, i: {"k": "objext", "e": e, "inside": i}, sub, obj_inside(sub)),
        st.builds(lambda bs, body: {"k": "local", "binds": bs, "body": body}, st.lists(bind(sub), min_size=1, max_size=2), sub),
        st.builds(lambda c, t, e: {"k": "if", "cond": c, "then": t, "else": e}, sub, sub, opt),
        st.builds(lambda ps, body: {"k": "func", "params": ps, "body": body}, params(sub), sub),
        st.builds(lambda a, body: {"k": "assert", "assert": a, "body": body}, assert_(sub), sub),
        st.builds(lambda e: {"k": "error", "e": e}, sub),
        st.builds(lambda k, s: {"k": k, "path": {"k": "string", "v": s}}, st.sampled_from(["import", "importstr", "importbin"]),
                  st.sampled_from(["a.libsonnet", "x/y.txt"])),
    )


@st.composite
def call(draw, sub):
    f = draw(sub)
    args = []
    named = False
    for _ in range(draw(st.integers(0, 3))):
        if named or draw(st.integers(0, 3)) == 0:
            named = True
            args.append({"name": draw(ident()), "e": draw(sub)})
        else:
            args.append({"name": None, "e": draw(sub)})
    return {"k": "call", "f": f, "args": args, "tailstrict": draw(st.integers(0, 4)) == 0}


def syntax_trees(max_leaves=12):
    return st.recursive(leaf(), compound, max_leaves=max_leaves)


# operator-only trees for the precedence check
def operator_trees(max_leaves=8):
    atom = st.one_of(ident().map(lambda n: {"k": "ident", "name": n}), st.sampled_from(["1", "2", "0.5"]).map(lambda s: {"k": "number", "text": s}),
                     st.just({"k": "self"}), st.just({"k": "dollar"}))

    def ext(sub):
        return st.one_of(
            st.builds(lambda op, l, r: {"k": "binary", "op": op, "l": l, "r": r}, st.sampled_from(BINOPS), sub, sub),
            st.builds(lambda op, l, r: {"k": "binary", "op": op, "l": l, "r": r}, st.sampled_from(BINOPS), sub, sub),
            st.builds(lambda op, l, r: {"k": "binary", "op": op, "l": l, "r": r}, st.sampled_from(BINOPS), sub, sub),
            st.builds(lambda op, e: {"k": "unary", "op": op, "e": e}, st.sampled_from(UNOPS), sub),
            st.builds(lambda e: {"k": "insuper", "e": e}, sub),
            st.builds(lambda e, n: {"k": "field", "e": e, "name": n}, sub, ident()),
            st.builds(lambda e, i: {"k": "index", "e": e, "index": i}, sub, sub),
            st.builds(lambda e, a: {"k": "call", "f": e, "args": [{"name": None, "e": a}], "tailstrict": False}, sub, sub),
            st.builds(lambda e, a, c: {"k": "slice", "e": e, "start": a, "end": None, "step": c}, sub, st.one_of(st.none(), sub), st.one_of(st.none(), sub)),
        )

    return st.recursive(atom, ext, max_leaves=max_leaves)
