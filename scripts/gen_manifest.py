#!/usr/bin/env python3
"""Writes MANIFEST.json from the table below (kept in one place so it stays valid)."""
import json, os, subprocess
ROOT = os.path.dirname(os.path.dirname(os.path.abspath(__file__)))

CLAIMED = {
 # id: (technique, level text, level note, design ref)
 "C05": ("property-based testing (Hypothesis): generated values x settings, round-trip through independent parsers (CPython json/ast/tomllib, std.parseYaml)",
         "Exploration: tens of thousands of generated values per run are manifested by every JSON/Python/TOML/YAML emitter and decoded by an independent parser; equality is bitwise on doubles and per code point on strings. Right level because the property is a round-trip over an unbounded value space.",
         "Trusts CPython's json, ast.literal_eval, tomllib and float(); for YAML the decoder is rsjsonnet's own std.parseYaml (third-party saphyr parser) plus a strict reader of the emitted grammar.",
         "DESIGN.md section 5 / C05"),
}
CLAIMED["C06"] = ("property-based testing (Hypothesis): boundary-grid and random doubles through every operator/std function (validity oracle + IEEE differential), generated literal texts vs CPython float(), printed text vs repr()",
         "Exploration: generated operands, literal texts and doubles; oracles are IEEE arithmetic in CPython, correctly rounded float(), shortest-round-trip repr(). Right level because the property quantifies over all doubles and literal shapes.",
         "Trusts CPython float()/repr()/math.fmod and that the engine transports doubles as bit patterns.",
         "DESIGN.md section 5 / C06")
CLAIMED["C20"] = ("property-based testing (Hypothesis): differential against CPython int()/json/base64/hashlib/shlex/html/ast on generated and mutated inputs; inverse laws",
         "Exploration: generated digit strings, generated+mutated JSON/YAML documents, random strings and byte arrays at hash-block boundaries, each compared with the CPython implementation of the standard function. Right level: the property is functional equality over unbounded string domains.",
         "Trusts CPython int(), json (made strict), base64, hashlib, shlex, html, ast; RFC 4648 grammar as a regular expression; YAML agreement restricted to YAML-printable raw characters.",
         "DESIGN.md section 5 / C20")
CLAIMED["C19"] = ("property-based testing (Hypothesis): generated printf directives x values, differential against CPython's % operator where conventions coincide, printf invariants elsewhere",
         "Exploration: generated directives (flags/width/precision/*/(key)/length modifiers/conversions) and values; digit-exact comparison with CPython's % on the documented common subset, invariants (width, padding, sign, precision, value within half a unit, g/G shape) for the rest; malformed formats must be errors.",
         "Trusts CPython's % operator and fractions.Fraction; the classes where Jsonnet's documented behaviour differs from Python ('#o', precision on %s, sign of -0, g/G, integers >= 2^53) are judged by invariants only.",
         "DESIGN.md section 5 / C19")
CLAIMED["C18"] = ("property-based testing (Hypothesis): generated mixed-width strings and index/limit arguments, differential against CPython str semantics (code points) plus inverse identities",
         "Exploration: every string builtin and the index/slice operators are compared with Python's str operations on strings over ASCII/2-/3-/4-byte/combining characters with overlapping separators; arguments outside a function's domain must be errors.",
         "Trusts CPython str (code-point semantics) and the Jsonnet 0.21 slice rule (negative bounds count from the end).",
         "DESIGN.md section 5 / C18")
CLAIMED["C17"] = ("property-based testing (Hypothesis): generated arrays with duplicate keys and index tags (stability observable) vs Python's stable sorted() and key-based set algebra",
         "Exploration: arrays of numbers/strings/arrays of length 0-200 (dense around the 30/60 element thresholds) with identity and projecting key functions; results compared element for element, tags included; all overlap patterns of set pairs.",
         "Trusts CPython sorted()/min()/max() (stable, first extremum) and list/str/float ordering, which coincides with Jsonnet's order on homogeneous keys.",
         "DESIGN.md section 5 / C17")
CLAIMED["C01"] = ("property-based testing and fuzzing: stdlib call matrix over boundary values (sampled + Cartesian product), random/mutated byte strings and generated programs under a step budget, hostile ext-var/TLA bindings, in-process and through the real binary; totality oracle",
         "Exploration: the outcome of every generated input must be a JSON value or a structured lex/parse/analyze/eval error; panics, aborts, signals, exit statuses outside {0,1,2} and Rust panic text are violations. Right level: the property is totality over unbounded input domains.",
         "In-process runs use rsjsonnet-lang with the verif-hooks step budget (hangs are decided by fuel, not wall clock); allocation-sizing arguments are capped at 1e5 (memory exhaustion is out of scope); the known parser stack overflow on deeply nested source (D9) is an open known finding with its own signature.",
         "DESIGN.md section 5 / C01")
CLAIMED["C08"] = ("property-based testing (Hypothesis): related value triples in varied spellings, every relation evaluated separately and compared with a reference implementation of JSON equality and the specified order",
         "Exploration: generated pairs/triples with frequent coincidences (equal-but-differently-built, prefixes, astral strings, hidden fields, lazily failing tails); ==, !=, std.equals, <, <=, >, >=, std.__compare(_array) in both argument orders must match the reference; values without an order must be errors.",
         "Trusts the reference order/equality in pbt/props/c08.py (numbers, strings by code point via Python str comparison, arrays lexicographic) which is a total order by construction, hence transitivity/trichotomy follow from agreement.",
         "DESIGN.md section 5 / C08")
CLAIMED["C14"] = ("property-based testing (Hypothesis) + exhaustive enumeration: tiling invariants on arbitrary/mutated bytes, differential against a reference lexer written from the specification, intended-token spellings, every Unicode scalar and invalid UTF-8 prefix in literal bodies",
         "Exploration (with exhaustive sub-enumerations in the thorough tier): token spans must tile the input, filtering whitespace must not change other tokens, kinds/payloads/spans must equal the reference lexer's, literal payloads must equal the intended value, invalid UTF-8 in bodies must equal lossy decoding.",
         "Trusts the reference lexer pbt/ref/lexer.py (written from the Jsonnet lexical grammar), CPython's UTF-8 codec with errors='replace', exact rational arithmetic for number tokens.",
         "DESIGN.md section 5 / C14")
CLAIMED["C15"] = ("property-based testing (Hypothesis): generated syntax trees printed with varied parenthesisation/spacing and re-parsed (round trip incl. byte spans), operator trees vs fully parenthesised forms, token-level mutations for error locations",
         "Exploration: every node kind incl. all slice layouts; the re-parsed tree must equal the printed tree node for node with spans = first..last token; minimal and fully parenthesised prints must group identically (precedence table, left associativity); a ParseError must name a token of the input.",
         "Trusts the printer pbt/gen/printer.py (precedence table from the specification; it records the byte range of every node) and the reference lexer used to place mandatory spaces.",
         "DESIGN.md section 5 / C15")
CLAIMED["C10"] = ("property-based testing (Hypothesis): recursion shapes x depth x increasing sweeps of the frame limit, with a deterministic step budget; monotonicity/threshold oracles",
         "Exploration: 119 recursion shapes (calls, paths that are the only source of frames - iteratively built thunk chains, super / +: chains, every comparing or walking builtin over nested values -, thunk chains, nested values through comparison/conversion/manifestation/stdlib walkers, self-referential values) x depths x limits; outcomes along a sweep must be StackOverflow* then one stable outcome, cycles must end in InfiniteRecursion/StackOverflow, never a crash or an exhausted step budget; limits up to 2^64-1 must not change the outcome of a program that succeeds under a small one.",
         "Hangs are decided by the verif-hooks step budget (fuel), not by wall clock; shapes whose output size is quadratic in the depth are capped; five builtins that loop on infinitely nested values are open known findings (D16).",
         "DESIGN.md section 5 / C10")
CLAIMED["C16"] = ("property-based testing (Hypothesis): span-manager scripts against a list model; failing programs (templates, generated trees, mutated corpus) checked for in-file spans in-process and for rendered file/line/column and trace cropping through the real binary",
         "Exploration: registrations with context lengths up to 2^40 and span lengths around 2^25 must round-trip; every span of every error and stack-trace entry must lie inside the file it names; the rendered report (plain/coloured, every --max-trace) must exit 1 without panic text and name the primary span's file, line and column - also for every character without display width as a stray character, for multi-line spans starting on lines around every power of ten, and for std.trace reports of successful runs.",
         "Trusts the in-process error dump of the engine (public error enums) and compares the binary's first `-->` line with the primary span computed in-process on the same bytes; columns are only judged when the line prefix is printable ASCII (tabs are expanded by the renderer).",
         "DESIGN.md section 5 / C16")
CLAIMED["C03"] = ("property-based testing (Hypothesis) + exhaustive enumeration: generated programs under many collection schedules (metamorphic), steady-state object counts over request histories, the real collector driven through a scripted heap against a reachability model",
         "Exploration, with an exhaustive sub-check: every heap with <= 3 nodes (4 in thorough) x every handle configuration x every single further operation is checked against reachability; random op sequences up to 40 ops; 9+ schedules per generated program must agree on outcome and stack trace; object counts must be stable after warm-up.",
         "Uses hooks H1 (schedule override, counters), H2 (scripted heap over the real GcContext) and H4 (a collection reports any object visited by more in-heap handles than exist, i.e. a handle traced twice); a handle that is never traced shows as a permanent leak of a cycle through it (steady-state sources contain one garbage cycle per kind of heap edge, pending and evaluated); the reachability model is 20 lines of Python/Rust; memoised standard-library thunks are allowed as warm-up growth.",
         "DESIGN.md section 5 / C03")
CLAIMED["C11"] = ("property-based testing (Hypothesis): generated request histories on one long-lived Program vs replay of each request's own dependency chain on a fresh Program (differential against the implementation itself on a fresh state)",
         "Exploration: histories of load/eval/re-eval/call/manifest/gc/set_max_stack over sources sharing a lazily evaluated ext-var and a cached import, with explicit errors, assertion failures, type errors and stack overflows interleaved; outcomes (text; error variant, message, spans, stack) must match the fresh state.",
         "The oracle is the same implementation on a fresh state (the property is stated that way); a fresh-state StackOverflow is not compared when the long-lived state succeeds because memoisation legitimately needs fewer frames.",
         "DESIGN.md section 5 / C11")
CLAIMED["C12"] = ("property-based testing with fault injection (Hypothesis): generated values x output modes x input forms x ext/TLA kinds run as real processes in private directories; enumerated I/O faults (missing/odd inputs, unwritable -o/-m targets, full/closed stdout)",
         "Exploration + fault enumeration: the value is chosen first, so the expected exit status and the exact view per mode (-S, -y, -m, -o, --no-trailing-newline) are known by construction and every output is decoded and compared; 22 fault kinds must give exit 1 (2 for usage) with a message and no partial output.",
         "Runs as root (permission faults cannot be produced, stated in DESIGN.md); the closed-descriptor case is an open known finding (D10).",
         "DESIGN.md section 5 / C12")
CLAIMED["C13"] = ("property-based testing with fault injection (Hypothesis): generated directory trees, -J orders and path spellings run through the real binary against a resolution model; self-tracing files count loads",
         "Exploration + fault enumeration: for every generated tree the id of the copy each import resolves to, the number of evaluations per canonical file, std.thisFile, importstr (lossy UTF-8) and importbin (bytes) content are compared with a 10-line resolution model; missing files, dangling links and cycles must exit 1 located at the import site; importstr/importbin content is exact for files whose multi-byte or invalid sequence straddles 4 KiB..256 KiB; importers without a directory (-e, stdin, ext/tla code) resolve absolute paths and -J directories.",
         "Trusts the resolution model in pbt/props/c13.py (importer's directory, then -J right-most first, absolute paths bypass) and os.path.realpath for canonical identity; runs as root, so unreadable-file faults are represented by missing files/dangling links/directories.",
         "DESIGN.md section 5 / C13")
CLAIMED["C02"] = ("property-based testing (Hypothesis): type-directed generated core-language programs, differential against a lazy reference interpreter written from the Jsonnet specification",
         "Exploration: closed terminating programs covering every core feature and their interactions (inheritance chains in every bracketing, self/super/$, +:, visibilities, object locals, asserts, comprehensions, default/named arguments, bounded recursion), printed with varied concrete syntax; the manifested value, or the explicit-error/assert message, must equal the reference interpreter's.",
         "Trusts the reference interpreter pbt/ref/interp.py (independent of /repo, ~600 lines) and the printer; numbers reaching string coercions are small integers or k/8, shifts use literal operands, tailstrict/imports/std beyond a whitelist are excluded (documented restrictions).",
         "DESIGN.md section 5 / C02")
CLAIMED["C09"] = ("property-based testing (Hypothesis): fault-free generated programs must load; one scoping fault of 26 kinds injected at a generated position (optionally moved, with or without the rest of the program, into dead code of 20 kinds) must be rejected in the analysis phase with the right error, name and byte span",
         "Exploration: faults are injected anywhere (dead branches, unused locals, default arguments, comprehension clauses, field-name expressions, object locals), into existing constructs or wrapped around an existing sub-expression; an independent scope walker decides where self/$/super are illegal; the printer supplies the expected byte span.",
         "Trusts the scope walker in pbt/props/c09.py and the generator's by-construction closedness (cross-checked by the reference interpreter, which raises on unbound names); evaluation-time panics for unbound names are covered by C01/C02 (a panic is always a violation).",
         "DESIGN.md section 5 / C09")
CLAIMED["C04"] = ("property-based testing (Hypothesis): metamorphic relations on generated programs with std.trace as the observer (dead-code insertion, meaning-preserving rewrites, evaluation counts of single thunks)",
         "Exploration: a generated program and its transformed version run on the same implementation; adding dead bindings/fields/arguments/branches must change neither outcome nor traces (and the dead part must not run), the four documented rewrites must keep value, error and trace sequence, and traced thunks used k times through different paths must run min(k, 1) times.",
         "std.trace reports after evaluating its second argument here, so sequences are only compared between two runs of this implementation; {f: e}.f is applied only where e mentions no self/super/$ (as the property states).",
         "DESIGN.md section 5 / C04")
CLAIMED["C07"] = ("property-based testing (Hypothesis): algebraic laws (associativity in every bracketing, {} identity) under a full inspection record, agreement of all views of one object, visibility computed from the chain, std.objectRemoveKey contract under further extension",
         "Exploration: chains of 2-5 generated layers with colliding names, all visibilities, +:, guarded super/self/$, object locals, asserts, computed names, comprehension and stdlib-built objects; every variant of the chain must produce the same record (JSON, objectFields(All), length, in/objectHas(All) per name, every field's value).",
         "Layer expressions are total by construction (guarded reads), so a failure is itself a violation; the visibility model is the 10-line rule of the specification.",
         "DESIGN.md section 5 / C07")
NOT_YET = {}

def main():
    props = [json.loads(l) for l in open(os.path.join(ROOT, "properties.jsonl"))]
    hooks_commits = subprocess.run(["git", "-C", "/repo", "log", "--format=%h %s", "--grep=verif hook"], capture_output=True, text=True).stdout.strip().splitlines()
    checks = []
    na = []
    for p in props:
        pid = p["id"]
        if pid in CLAIMED:
            tech, text, note, ref = CLAIMED[pid]
            checks.append({
                "property_id": pid,
                "quick_cmd": f"./run {pid} quick",
                "thorough_cmd": f"./run {pid} thorough",
                "evidence_file": f"/verif/evidence/{pid}.json",
                "replay_cmd_template": f"./run {pid} quick --replay {{path}}",
                "engine": "rsjv+hypothesis",
                "level_claimed": {"category": "exploration", "text": text, "design_ref": ref},
                "level_note": note,
                "technique": tech,
            })
        else:
            na.append({"property_id": pid, "reason": NOT_YET.get(pid, "check not built yet in this session (planned: property-based testing per DESIGN.md section 5); not claimed until it exists")})
    m = {
        "version": 1,
        "setup_cmd": "./scripts/build.sh all",
        "hooks": {
            "guard": "cargo feature `verif-hooks` of crate rsjsonnet-lang (all hook code is under #[cfg(feature = \"verif-hooks\")])",
            "enable": "the engine crate /verif/engine depends on rsjsonnet-lang by path with features=[\"verif-hooks\"]; the real CLI is built separately with the feature off",
            "baseline_off_cmd": "cd /repo && cargo test --workspace --no-fail-fast --offline",
            "source_commits": [c.split()[0] for c in hooks_commits],
            "add_only": True,
        },
        "engines": [
            {"name": "rsjv+hypothesis", "path": "/verif/engine + /verif/pbt", "serves_properties": sorted(CLAIMED),
             "kind_free_text": "Rust JSON-lines adapter over rsjsonnet-lang (hooks on) and the real CLI binary, driven by a Python/Hypothesis property-based testing driver with CPython reference oracles; cargo-fuzz targets for byte-level domains in thorough tiers"},
        ],
        "checks": checks,
        "not_applicable": na,
        "notes": "Exit codes: 0 held, 1 violation (VIOLATION line), 2 infrastructure problem/inconclusive. VERIF_SEED selects the Hypothesis seeds (worker i uses VERIF_SEED*1000+i). Known findings: /verif/KNOWN_FINDINGS.txt.",
    }
    with open(os.path.join(ROOT, "MANIFEST.json"), "w") as f:
        json.dump(m, f, indent=1)
        f.write("\n")

main()
