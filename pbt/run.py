"""Entry point: python -m pbt.run <Cxx> <quick|thorough> [--replay FILE]"""
import importlib
import json
import multiprocessing
import os
import sys
import time

from . import core
from . import engine as eng

ROOT = core.ROOT


def write_evidence(prop, mod, tier, seed, merged, wall, violations, extra):
    checks = {}
    total_eval = 0
    total_nt = 0
    samples = []
    for name, st in merged.items():
        checks[name] = {
            "evaluations": st["evaluations"],
            "distinct_nontrivial": len(st["nontrivial"]),
            "labels": dict(sorted(st["labels"].items(), key=lambda kv: -kv[1])[:40]),
            "excluded_known_findings": st["known"],
        }
        total_eval += st["evaluations"]
        total_nt += len(st["nontrivial"])
        for s in st["samples"][:3]:
            samples.append({"check": name, "case": s})
    ev = {
        "property_id": prop,
        "tier": tier,
        "seed": seed,
        "level": "exploration",
        "coverage": {
            "evaluations": total_eval,
            "distinct_nontrivial": total_nt,
            "rule": getattr(mod, "RULE", ""),
            "samples": samples[:12],
            "checks": checks,
            "repo_tree": core.repo_tree_hash(),
            "workers": extra.get("workers"),
            "exhaustive_subchecks": [c.name for c in mod.CHECKS if c.exhaustive],
            "replayed_files": extra.get("replayed", 0),
            "known_findings_confirmed": extra.get("known_lines", []),
        },
        "assumptions": getattr(mod, "ASSUMPTIONS", [
            "CPython standard library as reference", "Hypothesis generation/shrinking", "serde_json transport"]),
        "wall_s": round(wall, 2),
        "violations": violations,
    }
    if extra.get("inconclusive"):
        ev["coverage"]["inconclusive"] = extra["inconclusive"]
    if extra.get("fuzz"):
        ev["coverage"]["fuzz"] = extra["fuzz"]
        ev["coverage"]["evaluations"] += sum(v["executions"] for v in extra["fuzz"].values())
    evdir = os.environ.get("VERIF_EVIDENCE_DIR") or os.path.join(ROOT, "evidence")
    os.makedirs(evdir, exist_ok=True)
    with open(os.path.join(evdir, f"{prop}.json"), "w") as f:
        json.dump(ev, f, indent=1, ensure_ascii=True)
        f.write("\n")


def replay_file(mod, prop, path, open_findings, strict=True):
    data = json.load(open(path, encoding="utf-8"))
    check = next((c for c in mod.CHECKS if c.name == data.get("check")), None)
    if check is None:
        return None, f"unknown check {data.get('check')}"
    stats = core.Stats()
    try:
        core.run_case(check, data["case"], stats, open_findings, strict=False)
    except core.Violation as v:
        return v, None
    return None, None


def main():
    argv = sys.argv[1:]
    if len(argv) < 2:
        print("usage: run <Cxx> <quick|thorough> [--replay FILE]")
        return 2
    prop, tier = argv[0].upper(), argv[1]
    if os.environ.get("VERIF_TIER") in ("quick", "thorough") and tier not in ("quick", "thorough"):
        tier = os.environ["VERIF_TIER"]
    seed = int(os.environ.get("VERIF_SEED", "20260923"))
    try:
        mod = importlib.import_module(f"pbt.props.{prop.lower()}")
    except ModuleNotFoundError as e:
        print(f"no such property module: {e}")
        return 2
    open_findings = core.load_findings().get(prop, {})
    t0 = time.time()

    if "--replay" in argv:
        path = argv[argv.index("--replay") + 1]
        try:
            v, err = replay_file(mod, prop, path, {})
        except eng.Inconclusive as e:
            print(f"INCONCLUSIVE replay {path}: {e}")
            return 2
        except Exception as e:  # noqa: BLE001 - a harness problem is never a violation
            print(f"INCONCLUSIVE replay {path}: harness error {type(e).__name__}: {e}")
            return 2
        if err:
            print(err)
            return 2
        if v is not None:
            if v.signature in open_findings:
                print(f"KNOWN-FINDING: property={prop} {open_findings[v.signature]}")
                return 0
            print(f"VIOLATION property={prop} replay={path}")
            print(f"  signature: {v.signature}")
            print(f"  {v.message}")
            return 1
        print(f"replay {path}: property holds")
        return 0

    violations = []
    known_seen = {}
    inconclusive = []
    # 1. replay tier: every stored case, always
    rdir = os.path.join(ROOT, "replays", prop)
    replayed = 0
    if os.path.isdir(rdir):
        for fn in sorted(os.listdir(rdir)):
            if not fn.endswith(".json"):
                continue
            path = os.path.join(rdir, fn)
            try:
                v, err = replay_file(mod, prop, path, open_findings)
            except eng.Inconclusive as e:
                inconclusive.append(f"replay {fn}: {e}")
                continue
            except Exception as e:  # noqa: BLE001 - a harness problem is never a violation
                inconclusive.append(f"replay {fn}: harness error {type(e).__name__}: {e}")
                continue
            replayed += 1
            if err:
                inconclusive.append(f"replay {fn}: {err}")
            elif v is not None:
                if v.signature in open_findings:
                    known_seen[v.signature] = known_seen.get(v.signature, 0) + 1
                else:
                    violations.append({"replay": path, "signature": v.signature, "message": v.message})

    # 2. generation tier
    nworkers = int(os.environ.get("VERIF_WORKERS", "16"))
    tasks = []
    only = [x for x in os.environ.get("VERIF_ONLY", "").split(",") if x]  # development aid: run a subset of the checks
    for c in mod.CHECKS:
        if only and c.name not in only:
            continue
        w = c.workers or nworkers
        for i in range(w):
            tasks.append((prop, c.name, tier, seed * 1000 + i, i, w))
    ctx = multiprocessing.get_context("fork")
    merged = {c.name: {"evaluations": 0, "nontrivial": set(), "labels": {}, "samples": [], "known": {}} for c in mod.CHECKS}
    known_examples = {}
    with ctx.Pool(processes=nworkers, maxtasksperchild=None) as pool:
        for res in pool.imap_unordered(core.worker_task, tasks, chunksize=1):
            st = res["stats"]
            m = merged[res["check"]]
            m["evaluations"] += st["evaluations"]
            m["worker_s"] = round(m.get("worker_s", 0.0) + res.get("wall_s", 0.0), 1)
            m["nontrivial"].update(st["nontrivial"])
            for k, n in st["labels"].items():
                m["labels"][k] = m["labels"].get(k, 0) + n
            for k, n in st["known"].items():
                m["known"][k] = m["known"].get(k, 0) + n
                known_seen[k] = known_seen.get(k, 0) + n
            known_examples.update(st.get("known_examples", {}))
            if len(m["samples"]) < 6:
                m["samples"].extend(st["samples"][:2])
            if res["violation"]:
                violations.append({"check": res["check"], **res["violation"]})
            if res["inconclusive"]:
                inconclusive.append(f"{res['check']}[{res['worker']}]: {res['inconclusive']}")

    # 3. coverage-guided campaigns (thorough tier, byte-level domains)
    fuzz_stats = None
    if tier == "thorough" and getattr(mod, "FUZZ", None):
        import subprocess as _sp
        from . import fuzz as _fuzz
        if not os.environ.get("VERIF_SKIP_BUILD") and _sp.run([os.path.join(ROOT, "scripts", "build.sh"), "fuzz"]).returncode != 0:
            inconclusive.append("fuzz targets failed to build")
        else:
            fuzz_stats, crashes, inc = _fuzz.run_campaigns(prop, mod.FUZZ, seed)
            inconclusive += inc
            for target, data, tail in crashes:
                case = {"target": target, "hex": data.hex()}
                # decide through the engine (same oracle, no libFuzzer): known findings are matched by signature there
                try:
                    core.run_case(next(c for c in mod.CHECKS if c.name == "fuzz_oracle_replay"), case, core.Stats(), open_findings)
                    inconclusive.append(f"fuzz crash of {target} does not reproduce through the engine oracle: {data[:80]!r}")
                except core.Violation as v:
                    violations.append({"check": "fuzz_oracle_replay", "case": case, "signature": v.signature, "message": v.message + " [found by libFuzzer]"})

    # report
    known_lines = []
    for key, n in sorted(known_seen.items()):
        line = f"KNOWN-FINDING: property={prop} {open_findings.get(key, key)}"
        print(f"{line}  [{n} case(s) this run]")
        known_lines.append(line)
    # findings listed but not observed this run are still printed (listed findings are always reported)
    for key, desc in sorted(open_findings.items()):
        if key not in known_seen:
            print(f"KNOWN-FINDING: property={prop} {desc}  [not re-observed this run]")
    rc = 0
    seen_sig = set()
    for v in violations:
        if "replay" in v:
            path = v["replay"]
        else:
            # found cases go to replays/ (or to a scratch dir when probing mutants: VERIF_NO_SAVE=1)
            fdir = rdir if not os.environ.get("VERIF_NO_SAVE") else os.path.join(ROOT, ".build", "found", prop)
            os.makedirs(fdir, exist_ok=True)
            h = core.case_hash(v["case"])
            path = os.path.join(fdir, f"found-{h}.json")
            with open(path, "w", encoding="utf-8") as f:
                json.dump({"property": prop, "check": v["check"], "case": v["case"], "signature": v["signature"],
                           "message": v["message"], "details": v.get("details")}, f, indent=1, ensure_ascii=True)
        if v["signature"] in seen_sig:
            continue
        seen_sig.add(v["signature"])
        print(f"VIOLATION property={prop} replay={path}")
        print(f"  signature: {v['signature']}")
        print("  " + v["message"][:2000].replace("\n", "\n  "))
        rc = 1
    wall = time.time() - t0
    write_evidence(prop, mod, tier, seed, merged, wall, len(violations),
                   {"workers": nworkers, "replayed": replayed, "known_lines": known_lines, "inconclusive": inconclusive, "fuzz": fuzz_stats})
    total = sum(m["evaluations"] for m in merged.values())
    nt = sum(len(m["nontrivial"]) for m in merged.values())
    print(f"{prop} {tier}: {total} cases, {nt} distinct non-trivial, {len(violations)} violation(s), "
          f"{len(inconclusive)} inconclusive, {wall:.1f}s")
    for name, m in merged.items():
        print(f"  {name}: {m['evaluations']} cases, {len(m['nontrivial'])} non-trivial, {m.get('worker_s', 0.0)} worker-s")
    if inconclusive:
        for i in inconclusive[:10]:
            print("INCONCLUSIVE " + i[:3000])
        if rc == 0:
            rc = 2
    return rc


if __name__ == "__main__":
    sys.exit(main())
