"""C16 - diagnostics always locate inside the source and always render."""
import json
import os
import re
import tempfile

from hypothesis import strategies as st

from ..core import Check, Violation
from .. import fuzz as _fuzz
from ..engine import run_cli
from ..gen import ast as A
from ..gen import printer as P
from .. import util
from .c01 import PANIC_MARKERS
from .c14 import corpus
from .c15 import chooser

PROPERTY = "C16"
RULE = ("(1) span manager scripts: contexts of lengths 0..2^40 (cumulative offsets crossing 2^38), spans with lengths "
        "around 2^25 and start offsets around 2^38, zero-length spans at both ends, repeated interning, against a list "
        "model; (2) failing programs (generated syntax trees, templates with errors at the first/last byte, at EOF, on "
        "multi-byte characters, on CRLF/tab lines, in imported files and in ext/TLA code, mutated corpus): every span of "
        "the error and of each stack-trace entry lies inside the file it names; (3) the same programs through the real "
        "binary, plain and coloured, with --max-trace 0..len+2: exit 1, no panic text, an error header, and the first "
        "`--> file:line:col` equals the primary span's file/line (and column when the line prefix is printable ASCII), "
        "cropped traces report the right number of hidden items. Non-trivial = span at EOF / on a multi-byte character / "
        "in an imported file / a cropped trace / an interned (non-inline) span; distinct by SHA-1 of the case")

# ---------------------------------------------------------------------------------------------
# (1) span manager

LENS = [0, 1, 2, 10, 1000, (1 << 25) - 1, 1 << 25, (1 << 25) + 1, 1 << 26, (1 << 38) - 5, 1 << 38, (1 << 38) + 3, 1 << 39, 1 << 40]


@st.composite
def span_case(draw):
    nctx = draw(st.integers(1, 8))
    lens = [draw(st.one_of(st.sampled_from(LENS), st.integers(0, 5000))) for _ in range(nctx)]
    ops = []
    for _ in range(draw(st.integers(1, 14))):
        c = draw(st.integers(0, nctx - 1))
        n = lens[c]
        kind = draw(st.integers(0, 7))
        if kind >= 6:
            # aim at a *global* offset next to a power of two (contexts are laid out one after the other, each followed by one
            # position for its end of file; if that guess about the layout were wrong the aim would merely be off)
            G = (1 << draw(st.sampled_from([38, 38, 38, 25, 32, 37, 39, 40]))) + draw(st.integers(-3, 2))
            base = 0
            hit = None
            for ci, ln in enumerate(lens):
                if base <= G <= base + ln:
                    hit = (ci, G - base)
                base += ln + 1
            if hit is not None:
                c, s = hit
                n = lens[c]
                e = min(n, s + draw(st.sampled_from([0, 0, 1, 3, (1 << 25) - 1, 1 << 25])))
            else:
                s = e = n
        elif kind == 0:
            s = e = draw(st.sampled_from([0, n]))
        elif kind == 1:
            s = draw(st.integers(0, n))
            e = min(n, s + draw(st.sampled_from([0, 1, 5, (1 << 25) - 2, (1 << 25) - 1, 1 << 25, (1 << 25) + 1, 1 << 30])))
        elif kind == 2:
            e = n
            s = max(0, n - draw(st.sampled_from([0, 1, (1 << 25) - 1, 1 << 25, (1 << 25) + 1])))
        elif kind == 3:
            s = min(n, draw(st.sampled_from([(1 << 38) - 3, (1 << 38) - 2, (1 << 38) - 1, 1 << 38, (1 << 38) + 1])))
            e = min(n, s + draw(st.integers(0, 3)))
        else:
            s = draw(st.integers(0, n))
            e = draw(st.integers(s, n))
        ops.append([c, s, e])
    return {"lens": lens, "ops": ops}


def check_spans(case):
    script = [["ctx", n] for n in case["lens"]]
    for c, s, e in case["ops"]:
        script.append(["intern", c, s, e])
    # repeated interning of the same spans, then read everything back
    for c, s, e in case["ops"][:3]:
        script.append(["intern", c, s, e])
    nspans = len(case["ops"]) + len(case["ops"][:3])
    for i in range(nspans):
        script.append(["get", i])
    r = util.request({"op": "spans", "script": script}, what=f"span script {case}")
    res = r["results"]
    gets = [x for x in res if x and "get" in x]
    interns = [x for x in res if x and "span" in x]
    expected = [list(o) for o in case["ops"]] + [list(o) for o in case["ops"][:3]]
    nt = False
    for i, (exp, got) in enumerate(zip(expected, gets)):
        if got["get"] != exp or not got["src_ok"]:
            raise Violation("span-roundtrip", f"registered (ctx {exp[0]}, {exp[1]}, {exp[2]}) with context lengths {case['lens']}, got back {got}")
        if not interns[i]["inline"]:
            nt = True
    return {"nontrivial": nt, "labels": ["interned" if nt else "inline"], "sample": {"lens": case["lens"], "ops": case["ops"][:4]}}


# ---------------------------------------------------------------------------------------------
# (2)+(3) failing programs

TEMPLATES = [
    # (main source, other files, ext, description)
    ("error 'x'", {}, [], "first byte"),
    ("1 +", {}, [], "EOF"),
    ("[1, 2", {}, [], "EOF bracket"),
    ("'unterminated", {}, [], "EOF string"),
    ("/* unterminated", {}, [], "EOF comment"),
    ("|||\n  text", {}, [], "EOF text block"),
    ("local é = 1; é", {}, [], "multi-byte invalid char"),
    ("'éé' + x", {}, [], "after multi-byte"),
    ("{\r\n\ta: 1,\r\n\tb: error '中',\r\n}", {}, [], "CRLF and tabs"),
    ("\t\t[1, error 'tab']", {}, [], "tab line"),
    ("import 'lib.libsonnet'", {"lib.libsonnet": "{a: error 'in lib'}.a"}, [], "imported file"),
    ("(import 'lib.libsonnet').f(1)", {"lib.libsonnet": "{f(x): x.y}"}, [], "imported function"),
    ("import 'lib.libsonnet'", {"lib.libsonnet": "1 +"}, [], "syntax error in import"),
    ("import 'lib.libsonnet'", {"lib.libsonnet": "local a = 1; b"}, [], "static error in import"),
    ("import 'missing.libsonnet'", {}, [], "missing import"),
    ("importstr 'missing.txt'", {}, [], "missing importstr"),
    ("std.extVar('v')", {}, [["v", "code", "error 'in ext'"]], "ext code"),
    ("std.extVar('v').a", {}, [["v", "code", "{b: 1}"]], "ext value"),
    ("std.extVar('nope')", {}, [], "unknown ext"),
    ("local f(n) = if n == 0 then error 'deep' else f(n - 1); f(40)", {}, [], "long trace"),
    ("local f(n) = if n == 0 then error 'deep' else [f(n - 1)][0]; {a: [f(12)]}", {}, [], "mixed trace"),
    ("local f(n) = f(n + 1); f(0)", {}, [], "stack overflow"),
    ("local x = x; x", {}, [], "infinite recursion"),
    ("{a: self.b, b: self.a}.a", {}, [], "field cycle"),
    ("std.sort([1, 'a'])", {}, [], "stdlib compare"),
    ("std.foldl(function(a, b) a + b, [1, 'x', {}], 0)", {}, [], "stdlib callback"),
    ("{assert self.a > 1 : 'msg', a: 1}", {}, [], "object assert"),
    ("assert false; 1", {}, [], "assert"),
    ("[1, 2, 3][5]", {}, [], "index"),
    ("{a: 1}.b", {}, [], "field"),
    ("1 < 'a'", {}, [], "compare"),
    ("std.assertEqual([1], [2])", {}, [], "assertEqual"),
    ("{a: function(x) x}", {}, [], "manifest function"),
    ("std.manifestJsonEx({a: error 'inner'}, ' ')", {}, [], "manifest inner"),
    ("std.parseJson('[1,')", {}, [], "parseJson"),
    ("'%d' % 'x'", {}, [], "format"),
    ("local a = 1, a = 2; a", {}, [], "repeated local"),
    ("{a: 1, a: 2}", {}, [], "repeated field"),
    ("function(x, x) 1", {}, [], "repeated param"),
    ("self", {}, [], "self outside"),
    ("$", {}, [], "dollar outside"),
    ("super.a", {}, [], "super outside"),
    ("f(a=1, 2)", {}, [], "positional after named"),
    ("import 'a' + 'b'", {}, [], "computed import"),
    ("1e999", {}, [], "number overflow"),
    ("01", {}, [], "leading zero"),
    ("'\\q'", {}, [], "bad escape"),
    ("'\\ud800'", {}, [], "bad surrogate"),
    ("\ufeff{a: 1}", {}, [], "byte order mark (zero display width)"), ("\u0301", {}, [], "lone combining mark"), ("'a' + \u0730", {}, [], "combining mark operand"),
    ("{a: 1}\u200b", {}, [], "zero width space at EOF"), ("local x\u0301 = 1; x", {}, [], "combining mark after identifier"), ("[1, \u200d]", {}, [], "zero width joiner"),
    ("'x' + \u202e", {}, [], "bidi control"), ("import 'zw.libsonnet'", {"zw.libsonnet": "\ufeff1"}, [], "BOM in imported file"),
    ("|||\n  a\n", {}, [], "text block: EOF after a line break"),
    ("|||\n  a\n b", {}, [], "text block: EOF in an under-indented last line"),
    ("|||\n  a\r\n", {}, [], "text block: EOF after CRLF"),
    ("|||\n  a\n\n", {}, [], "text block: EOF after a blank line"),
    ("|||", {}, [], "text block start at EOF"),
    ("||| x", {}, [], "text block without line break"),
    ("|||\n", {}, [], "text block: EOF after the first line break"),
    ("|||\nx", {}, [], "text block without indentation"),
    ("import 'tb.libsonnet'", {"tb.libsonnet": "|||\n  a\n"}, [], "text block error at EOF of an imported file"),
    ("1e", {}, [], "exponent at EOF"), ("1.", {}, [], "fraction at EOF"), ("1_", {}, [], "underscore at EOF"), ("'\\", {}, [], "escape at EOF"),
    ("'\\u12", {}, [], "unicode escape at EOF"), ("\"\\ud800\\u", {}, [], "surrogate escape at EOF"), ("@'abc", {}, [], "verbatim at EOF"),
    ("{a: 1", {}, [], "object at EOF"), ("local x = 1;", {}, [], "local at EOF"), ("if true then", {}, [], "if at EOF"), ("function(x)", {}, [], "function at EOF"),
    ("f(", {}, [], "call at EOF"), ("a[", {}, [], "index at EOF"), ("a.", {}, [], "field at EOF"), ("[x for x in", {}, [], "comprehension at EOF"),
    ("{a: 1} {", {}, [], "object extension at EOF"), ("1 +\n", {}, [], "operator then newline at EOF"), ("x", {}, [], "unknown variable one byte"),
    ("\xff".encode("latin-1").decode("latin-1"), {}, [], "non-ASCII"),
]


@st.composite
def failing_case(draw):
    mode = draw(st.integers(0, 3))
    cli = draw(st.integers(0, 2)) == 0
    mt = draw(st.integers(0, 12))
    color = draw(st.booleans())
    if mode <= 1:
        return {"kind": "template", "i": draw(st.integers(0, len(TEMPLATES) - 1)), "prefix": draw(st.sampled_from(["", "", "\n", "\r\n", "// c\n", "\t", "/* é */ ", "\n\n\n", "/* \u0301\u200b */ ", "'\ufeff' + "])),
                "cli": cli, "max_trace": mt, "color": color}
    if mode == 2:
        return {"kind": "tree", "tree": draw(A.syntax_trees(max_leaves=10)), "choices": draw(st.lists(st.integers(0, 1000), min_size=6, max_size=20)),
                "cli": cli, "max_trace": mt, "color": color}
    return {"kind": "corpus", "file": draw(st.integers(0, 10_000)), "pos": draw(st.integers(0, 10_000)), "byte": draw(st.integers(0, 255)), "op": draw(st.integers(0, 2)),
            "cli": cli, "max_trace": mt, "color": color}


STRAY_PLACES = 6


def stray_source(cp, place):
    ch = chr(cp)
    if place == 0:
        return ch + "{a: 1}", {}
    if place == 1:
        return "{a: 1}" + ch, {}
    if place == 2:
        return "local x = 1;\r\n\t" + ch + " x", {}
    if place == 3:
        return "import 'zw.libsonnet'", {"zw.libsonnet": "1 + " + ch}
    if place == 4:
        return "/* \u00e9\u4e2d */ " + ch, {}
    return "'a' + " + ch + "\n", {}


def enum_stray(tier, worker, nworkers):
    """Characters outside the lexical grammar placed where they are an error: every character without display width that
    Python's Unicode tables know (combining marks, enclosing marks, format characters, controls, line / paragraph separators,
    conjoining jamo) - these are the ones a renderer's column arithmetic can trip over - plus a strided sample of all scalars."""
    import unicodedata
    k = 0
    stride = 997 if tier == "quick" else 37
    for cp in range(0x80, 0x110000):
        if 0xd800 <= cp <= 0xdfff:
            continue
        cat = unicodedata.category(chr(cp))
        special = cat in ("Mn", "Me", "Cf", "Cc", "Zl", "Zp") or 0x1160 <= cp <= 0x11ff
        if not special and cp % stride:
            continue
        places = range(STRAY_PLACES) if (tier == "thorough" and special) else [(cp * 7 + cp // 13) % STRAY_PLACES]
        for place in places:
            if k % nworkers == worker:
                yield {"kind": "stray", "cp": cp, "place": place, "cli": True, "max_trace": 20, "color": bool((cp >> 2) & 1)}
            k += 1


# constructs whose span covers several lines, starting on line L for L around every power of ten (the width of the line-number
# gutter changes inside the span)
LINED = [
    "error\n'x'", "(1 +\n'a' -\n1)", "[1,\n2,\n3][\n5]", "{\n a: 1,\n}.b", "local f(x) =\n x.y;\nf(\n1\n)", "assert\nfalse\n:\n'm'; 1", "/*\n unterminated", "'unterminated\nstring",
    "|||\n  text\n", "[1,\n2\n", "local a = 1,\n a = 2; a", "{\n a: error\n 'deep',\n b: [self.a,\n 1]\n}", "std.foldl(\nfunction(a, b) a + b,\n[1, 'x',\n{}],\n0)",
    "local f(n) =\n if n == 0 then error\n 'bottom' else\n f(n - 1);\nf(\n3)", "{ a:\n\n\n\n\n\n\n\n\n\n\n\n 1 }\n.b",
]
LINES = [1, 2, 8, 9, 10, 11, 98, 99, 100, 101, 998, 999, 1000, 1001, 9999, 10000]


def enum_lined(tier, worker, nworkers):
    k = 0
    for li, line in enumerate(LINES):
        for ci in range(len(LINED)):
            if tier == "quick" and (li + ci) % 2:
                continue
            if k % nworkers == worker:
                yield {"kind": "lined", "line": line, "construct": ci, "cli": True, "max_trace": 20, "color": bool((li + ci) % 3 == 0)}
            k += 1


def build_source(case):
    if case["kind"] == "lined":
        filler = "\n" if case["line"] % 2 else "// c\n"
        return (filler * (case["line"] - 1) + LINED[case["construct"]]).encode("utf-8"), {}, []
    if case["kind"] == "stray":
        src, files = stray_source(case["cp"], case["place"])
        return src.encode("utf-8"), {k: v.encode("utf-8") for k, v in files.items()}, []
    if case["kind"] == "template":
        src, files, ext, _ = TEMPLATES[case["i"]]
        data = (case["prefix"] + src).encode("utf-8") if case["i"] != len(TEMPLATES) - 1 else b"\xff\xfe"
        return data, {k: v.encode("utf-8") for k, v in files.items()}, ext
    if case["kind"] == "tree":
        text, _ = P.print_tree(case["tree"], chooser(case["choices"]), "minimal", "normal")
        return text.encode("utf-8"), {"a.libsonnet": b"{a: 1}", "x/y.txt": b"t"}, []
    c = corpus()
    base = bytearray(c[case["file"] % len(c)][:2000])
    if base:
        pos = case["pos"] % len(base)
        if case["op"] == 0:
            base[pos] = case["byte"]
        elif case["op"] == 1:
            del base[pos:]
        else:
            base[pos:pos] = bytes([case["byte"]])
    return bytes(base), {}, []


def check_span_in_file(sp, sources, what):
    idx, s, e = sp
    if not (0 <= idx < len(sources)):
        raise Violation("span-unknown-file", f"{what}: span {sp} names source {idx}, only {len(sources)} sources exist")
    name, n = sources[idx]
    if not (0 <= s <= e <= n):
        raise Violation("span-out-of-file", f"{what}: span [{s}, {e}] lies outside {name!r} (length {n})")
    return name


def check_failing(case):
    data, files, ext = build_source(case)
    req = {"op": "eval", "src": {"hex": data.hex()}, "main": "main.jsonnet", "files": {k: {"hex": v.hex()} for k, v in files.items()},
           "ext": [{"name": n, "kind": k, "val": v} for n, k, v in ext], "want": ["multi", "sources"], "fuel": 300_000, "max_stack": 60}
    r = util.request(req, what=f"{data[:200]!r}")
    if "err" not in r or r["err"].get("fuel"):
        return {"labels": ["no-error"]}
    err = r["err"]
    sources = r.get("sources") or []
    if not sources:
        # load errors of ext code are reported before sources are attached
        return {"labels": ["no-sources"]}
    nt = False
    primary_file = None
    for sp in err.get("spans", []):
        name = check_span_in_file(sp, sources, f"{err['variant']} on {data[:80]!r}")
        if primary_file is None:
            primary_file = (name, sp)
        n = sources[sp[0]][1]
        if sp[1] == n or sp[2] == n:
            nt = True
        if name != "main.jsonnet":
            nt = True
    for item in err.get("stack", []):
        if item.get("span"):
            check_span_in_file(item["span"], sources, f"stack item {item['k']} of {err['variant']} on {data[:80]!r}")
    labels = [err["phase"]]
    # multi-byte at the primary span?
    if primary_file and primary_file[0] == "main.jsonnet":
        s = primary_file[1][1]
        if any(b >= 0x80 for b in data[max(0, s - 4):s + 4]):
            nt = True
    import_failed = any(isinstance(t, dict) and "import_load_error" in t for t in r.get("traces", []))
    if import_failed:
        # the binary reports the imported file's own load error first; only the span checks above apply
        primary_file = None
    if case["cli"] and b"\x00" not in data:
        nt = render_check(case, data, files, ext, err, primary_file, sources) or nt
        labels.append("cli")
    return {"nontrivial": nt, "labels": labels, "sample": {"src": data[:100].decode("utf-8", "replace"), "error": err["variant"]}}


LOC_RE = re.compile(r"^\s*--> (.*):(\d+):(\d+)\s*$", re.M)
ANSI_RE = re.compile(r"\x1b\[[0-9;]*m")


def render_check(case, data, files, ext, err, primary, sources):
    with tempfile.TemporaryDirectory(prefix="c16-") as d:
        main = os.path.join(d, "main.jsonnet")
        with open(main, "wb") as f:
            f.write(data)
        for name, content in files.items():
            p = os.path.join(d, name)
            os.makedirs(os.path.dirname(p), exist_ok=True)
            with open(p, "wb") as f:
                f.write(content)
        args = ["-s", "60", "-t", str(case["max_trace"])]
        for n, k, v in ext:
            args += ["--ext-code" if k == "code" else "--ext-str", f"{n}={v}"]
        env = {} if not case["color"] else {"NO_COLOR": ""}
        rc, out, errb = run_cli(args + ["main.jsonnet"], cwd=d, env=env)
        # reference run with an unlimited trace (only needed when there is a trace to crop)
        errb2 = errb
        if err.get("stack"):
            rc2, out2, errb2 = run_cli(args[:2] + args[4:] + ["main.jsonnet"], cwd=d)
    text = errb.decode("utf-8", "replace")
    what = f"{data[:100]!r} (-t {case['max_trace']}, colour={case['color']})"
    if rc < 0:
        raise Violation(f"render-signal:{-rc}", f"rsjsonnet killed by signal {-rc} rendering the error of {what}: {text[-300:]}")
    if rc != 1:
        raise Violation(f"render-exit:{rc}", f"exit status {rc} (expected 1) on {what}: {text[-300:]}")
    for m in PANIC_MARKERS:
        if m in text:
            raise Violation("render-panic", f"diagnostic rendering panicked on {what}: {text[-400:]}")
    plain = ANSI_RE.sub("", text)
    if case["color"] and "\x1b[" not in text:
        raise Violation("render-no-colour", f"coloured output requested but no escape sequences on {what}")
    if out:
        raise Violation("render-stdout", f"stdout not empty on a failing run of {what}: {out[:100]!r}")
    if not re.search(r"^error", plain, re.M):
        raise Violation("render-no-header", f"no `error` header in the report for {what}: {plain[:300]!r}")
    nt = False
    if primary is not None:
        m = LOC_RE.search(plain)
        if not m:
            raise Violation("render-no-location", f"error {err['variant']} has a primary span {primary} but the report has no `-->` line: {plain[:400]!r}")
        fname, line, col = m.group(1), int(m.group(2)), int(m.group(3))
        pname, (idx, s, e) = primary
        content = data if pname == "main.jsonnet" else files.get(pname)
        exp_name = {"main.jsonnet": "main.jsonnet"}.get(pname, pname)
        if content is not None:
            if os.path.basename(fname) != os.path.basename(exp_name) and not fname.startswith("<"):
                raise Violation("render-file", f"report names {fname!r}, primary span is in {pname!r} on {what}")
            exp_line = content[:s].count(b"\n") + 1
            if line != exp_line:
                raise Violation("render-line", f"report says line {line}, primary span starts on line {exp_line} on {what}")
            ls = content.rfind(b"\n", 0, s) + 1
            prefix = content[ls:s]
            if all(0x20 <= b < 0x7f for b in prefix):
                if col != len(prefix) + 1:
                    raise Violation("render-column", f"report says column {col}, primary span starts at column {len(prefix) + 1} on {what}")
            else:
                nt = True
    # cropping
    full = ANSI_RE.sub("", errb2.decode("utf-8", "replace"))
    n_items = len(err.get("stack", []))
    mt = case["max_trace"]
    hidden = re.search(r"\.\.\. (\d+) items hidden \.\.\.", plain)
    if n_items > mt:
        nt = True
        if not hidden or int(hidden.group(1)) != n_items - mt:
            raise Violation("render-crop", f"trace has {n_items} items, --max-trace {mt}: report says {hidden.group(0) if hidden else 'nothing'} on {what}")
        shown = len(re.findall(r"^note: while |^note: during manifest", plain, re.M))
    elif hidden:
        raise Violation("render-crop", f"trace has {n_items} items <= --max-trace {mt} but the report hides items on {what}")
    else:
        if plain.count("note:") != full.count("note:"):
            raise Violation("render-crop", f"uncropped trace differs from the unlimited one on {what}")
    return nt


# std.trace reports go through the same renderer (on a *successful* run): same positions, exit status 0
TRACED = ["std.trace('m',\n1)", "std.trace(\n'm' +\n'n',\n[1,\n2])", "[std.trace('a\u0301\u200b', 1), std.trace('\ufeff', 2)]", "{ a: std.trace('x', 1),\n\n b: std.trace(\n'y', 2) }",
          "local f(x) = std.trace('in f',\n x);\nf(\n3)", "std.trace('\U000e0100' + '\t', '\u4e2d')"]


def enum_traced(tier, worker, nworkers):
    k = 0
    for li, line in enumerate(LINES):
        for ci in range(len(TRACED)):
            if k % nworkers == worker:
                yield {"line": line, "construct": ci, "color": bool((li + ci) % 2)}
            k += 1


def check_traced(case):
    src = ("\n" * (case["line"] - 1) + TRACED[case["construct"]]).encode("utf-8")
    with tempfile.TemporaryDirectory(prefix="c16t-") as d:
        with open(os.path.join(d, "main.jsonnet"), "wb") as f:
            f.write(src)
        rc, out, errb = run_cli(["main.jsonnet"], cwd=d, env={} if not case["color"] else {"NO_COLOR": ""})
    text = errb.decode("utf-8", "replace")
    what = f"std.trace construct {case['construct']} starting on line {case['line']} (colour={case['color']})"
    for m in PANIC_MARKERS:
        if m in text:
            raise Violation("trace-render-panic", f"rendering a std.trace report panicked: {what}: {text[-300:]}")
    if rc != 0:
        raise Violation(f"trace-render-exit:{rc}", f"a program that only traces exits {rc}: {what}: {text[-300:]}")
    if "TRACE:" not in ANSI_RE.sub("", text):
        raise Violation("trace-render-missing", f"no TRACE report on stderr: {what}: {text[:200]!r}")
    m = LOC_RE.search(ANSI_RE.sub("", text))
    if m and int(m.group(2)) < case["line"]:
        raise Violation("trace-render-line", f"the first TRACE report names line {m.group(2)}, the program starts on line {case['line']}: {what}")
    try:
        json.loads(out)
    except ValueError:
        raise Violation("trace-render-stdout", f"stdout is not the value: {what}: {out[:100]!r}")
    return {"nontrivial": True, "labels": [f"line{case['line']}"], "sample": what}


CHECKS = [
    Check("trace_reports_render", check_traced, enumerate_fn=enum_traced),
    Check("span_manager_roundtrip", check_spans, span_case, quick=400, thorough=15000),
    Check("error_spans_and_rendering", check_failing, failing_case, quick=250, thorough=8000),
    Check("stray_characters_render", check_failing, enumerate_fn=enum_stray),
    Check("multi_line_spans_at_every_gutter_width", check_failing, enumerate_fn=enum_lined),
    _fuzz.replay_check(["pipeline"]),
]
FUZZ = [("pipeline", 300_000, 800)]
