"""C17 - sorting and set functions meet their mathematical contracts."""
from hypothesis import strategies as st

from ..core import Check, Violation
from ..gen import values as V
from .. import util

PROPERTY = "C17"
RULE = ("arrays of numbers / strings / arrays from small pools (many duplicate keys), lengths 0-200 with emphasis on "
        "29-33 and 59-65 (merge/quick thresholds), elements tagged with their original index so stability is "
        "observable, key functions identity / projection / negation / modulo / array-valued; pairs of sets with every "
        "overlap pattern. Oracle: Python's stable sorted() and set algebra by key (left operand preferred), first "
        "minimal/maximal element. Non-trivial = length > 30 with a duplicate key, or sets with a non-empty "
        "intersection; distinct by SHA-1 of the case")

NUM_POOL = [0.0, -0.0, 0.0, -0.0, 1.0, 2.0, 3.0, -1.0, 0.5, 2.5, 1e10, -1e10, 7.0, 8.0, 9.0, 100.0]
STR_POOL = ["", "a", "b", "ab", "aa", "B", "é", "中", "\U0001f600", "z", "á", "~", "￿", "\U00010000"]
ARR_POOL = [[], [0.0], [1.0], [0.0, 0.0], [0.0, 1.0], [1.0, 0.0], [2.0], [0.0, 0.0, 0.0]]
KEYFS = {
    "proj": ("function(x) x[0]", lambda k: k),
    "neg": ("function(x) -x[0]", lambda k: -k),
    "mod": ("function(x) x[0] % 3", None),
    "arr": ("function(x) [x[0] % 2, x[0]]", None),
    "objproj": ("function(x) x.k", lambda k: k),
}


@st.composite
def sort_case(draw):
    kind = draw(st.sampled_from(["num", "num", "str", "arr"]))
    pool = {"num": NUM_POOL, "str": STR_POOL, "arr": ARR_POOL}[kind]
    npool = draw(st.integers(1, len(pool)))
    sub = draw(st.lists(st.sampled_from(pool), min_size=npool, max_size=npool))
    n = draw(st.one_of(st.integers(0, 12), st.integers(27, 35), st.integers(57, 67), st.integers(0, 200), st.sampled_from([30, 31, 60, 61, 62, 120, 121])))
    keys = draw(st.lists(st.sampled_from(sub), min_size=n, max_size=n))
    # structured orders: runs that are already ordered (either way, with ties), rotations, blocks - the shapes on which
    # "already sorted" / "reverse sorted" shortcuts of a merge or partition step act
    pattern = draw(st.sampled_from(["random", "random", "random", "nonincreasing", "nondecreasing", "rotated", "blocks", "sawtooth", "organ"]))
    okey = (lambda k: repr(k)) if kind == "arr" else (lambda k: k)
    if pattern == "nonincreasing":
        keys = sorted(keys, key=okey, reverse=True)
    elif pattern == "nondecreasing":
        keys = sorted(keys, key=okey)
    elif pattern == "rotated":
        ks = sorted(keys, key=okey, reverse=draw(st.booleans()))
        r = draw(st.integers(0, max(0, n - 1)))
        keys = ks[r:] + ks[:r]
    elif pattern == "blocks":
        cuts = sorted(draw(st.lists(st.integers(0, n), max_size=4)))
        out, prev = [], 0
        for c in cuts + [n]:
            out += sorted(keys[prev:c], key=okey, reverse=draw(st.booleans()))
            prev = c
        keys = out
    elif pattern == "sawtooth":
        period = draw(st.integers(2, 9))
        ks = sorted(keys, key=okey)
        keys = [ks[(i % period) * max(1, n // period) % max(1, n)] if n else None for i in range(n)]
    elif pattern == "organ":
        ks = sorted(keys, key=okey)
        keys = ks[::2] + ks[1::2][::-1]
    keyf = draw(st.sampled_from(["proj", "objproj"] + (["neg", "mod", "arr"] if kind == "num" else [])))
    tagged = draw(st.booleans())
    return {"kind": kind, "keys": keys, "keyf": keyf, "tagged": tagged, "pattern": pattern}


def keysrc(kind, k):
    if kind == "num":
        return "(" + V.jsonnet_number(k) + ")"
    if kind == "str":
        return V.jsonnet_string(k)
    return "[" + ", ".join(V.jsonnet_number(x) for x in k) + "]"


def pykey(keyf, k):
    if keyf in ("proj", "objproj"):
        return k
    if keyf == "neg":
        return -k
    import math
    if keyf == "mod":
        return math.fmod(k, 3)
    return [math.fmod(k, 2), k]


def T(x):
    if isinstance(x, bool) or x is None or isinstance(x, str):
        return x
    if isinstance(x, (int, float)):
        return V.num(float(x))
    if isinstance(x, (list, tuple)):
        return {"a": [T(y) for y in x]}
    if isinstance(x, dict):
        return {"o": [[k, T(v)] for k, v in sorted(x.items())]}
    raise TypeError(x)


def uniq(items, key):
    out = []
    for x in items:
        if not out or key(out[-1]) != key(x):
            out.append(x)
    return out


def check_sort(case):
    kind, keys, keyf, tagged = case["kind"], case["keys"], case["keyf"], case["tagged"]
    if tagged:
        if keyf == "objproj":
            elems = [{"k": k, "i": float(i)} for i, k in enumerate(keys)]
            src = "[" + ", ".join(f"{{k: {keysrc(kind, k)}, i: {i}}}" for i, k in enumerate(keys)) + "]"
            kf_src = KEYFS[keyf][0]
            kf = lambda e: pykey(keyf, e["k"])
        else:
            elems = [[k, float(i)] for i, k in enumerate(keys)]
            src = "[" + ", ".join(f"[{keysrc(kind, k)}, {i}]" for i, k in enumerate(keys)) + "]"
            kf_src = KEYFS[keyf][0]
            kf = lambda e: pykey(keyf, e[0])
    else:
        elems = list(keys)
        src = "[" + ", ".join(keysrc(kind, k) for k in keys) + "]"
        kf_src = None
        kf = lambda e: e
    kfarg = f", {kf_src}" if kf_src else ""
    kfnamed = f", keyF={kf_src}" if kf_src else ""
    srt = sorted(elems, key=kf)
    st_ = uniq(srt, kf)
    tests = [
        (f"std.sort({src}{kfarg})", srt),
        (f"std.uniq({src}{kfarg})", uniq(elems, kf)),
        (f"std.set({src}{kfarg})", st_),
        (f"std.uniq(std.sort({src}{kfarg}){kfarg})", st_),
        (f"std.sort(std.sort({src}{kfarg}){kfarg})", srt),
        (f"std.sort(std.reverse({src}){kfarg})", sorted(list(reversed(elems)), key=kf)),
    ]
    if elems:
        mn = min(elems, key=kf)  # first minimal
        mx = max(elems, key=kf)  # first maximal
        tests.append((f"std.minArray({src}{kfnamed})", mn))
        tests.append((f"std.maxArray({src}{kfnamed})", mx))
    else:
        tests.append((f"std.minArray({src}{kfnamed}, onEmpty='E')", "E"))
        tests.append((f"std.maxArray({src}{kfnamed}, onEmpty='E')", "E"))
    res = util.eval_exprs([e for e, _ in tests], want=["typed"])
    for (e, exp), r in zip(tests, res):
        if not util.is_ok(r):
            raise Violation("error:" + e.split("(")[0], f"{e[:300]} failed: {r['err'].get('variant')} {r['err'].get('detail')}")
        got = util.typed(r)
        if not V.same(got, T(exp), zero_sign=True):
            raise Violation("wrong:" + e.split("(")[0], f"{e[:400]} = {V.show(got)[:300]}, expected {V.show(T(exp))[:300]}")
    n = len(keys)
    dup = len(set(map(repr, (kf(e) for e in elems)))) < n
    return {"nontrivial": n > 30 and dup, "labels": [f"len{'>60' if n > 60 else '>30' if n > 30 else '<=30'}", keyf if tagged else "identity", "order:" + case.get("pattern", "random")],
            "sample": {"kind": kind, "n": n, "keyf": keyf, "tagged": tagged, "keys": [repr(k) for k in keys[:8]]}}


@st.composite
def set_case(draw):
    kind = draw(st.sampled_from(["num", "str", "arr"]))
    pool = {"num": NUM_POOL, "str": STR_POOL, "arr": ARR_POOL}[kind]
    pattern = draw(st.sampled_from(["random", "random", "equal", "disjoint", "a-empty", "b-empty", "subset", "interleaved"]))
    a = draw(st.lists(st.sampled_from(pool), max_size=len(pool)))
    b = draw(st.lists(st.sampled_from(pool), max_size=len(pool)))
    if pattern == "equal":
        b = list(a)
    elif pattern == "disjoint":
        b = [x for x in b if x not in a]
    elif pattern == "a-empty":
        a = []
    elif pattern == "b-empty":
        b = []
    elif pattern == "subset":
        b = [x for x in b if x in a]
    elif pattern == "interleaved":
        s = sorted({repr(x): x for x in pool}.values())
        a, b = s[::2], s[1::2]
    x = draw(st.sampled_from(pool))
    tagged = draw(st.booleans())
    if kind == "num" and draw(st.integers(0, 2)) == 0:
        # long sets from arithmetic progressions (lengths up to 150: long two-pointer walks, deep binary searches), members and
        # non-members at every position
        pattern = "progressions"
        s1, s2 = draw(st.integers(1, 4)), draw(st.integers(1, 4))
        o1, o2 = draw(st.integers(-5, 5)), draw(st.integers(-5, 5))
        n1, n2 = draw(st.integers(0, 150)), draw(st.integers(0, 150))
        a = [float(o1 + s1 * i) for i in range(n1)]
        b = [float(o2 + s2 * i) for i in range(n2)]
        x = float(draw(st.integers(-8, 620))) + draw(st.sampled_from([0.0, 0.0, 0.5]))
    return {"kind": kind, "a": a, "b": b, "x": x, "tagged": tagged, "pattern": pattern}


def check_sets(case):
    kind, tagged = case["kind"], case["tagged"]

    def mkset(keys, tag):
        u = []
        for k in sorted(keys):
            if not u or u[-1] != k:
                u.append(k)
        if tagged:
            return [[k, tag] for k in u]
        return u

    a = mkset(case["a"], "A")
    b = mkset(case["b"], "B")
    kf = (lambda e: e[0]) if tagged else (lambda e: e)

    def esrc(e):
        if tagged:
            return f"[{keysrc(kind, e[0])}, '{e[1]}']"
        return keysrc(kind, e)

    asrc = "[" + ", ".join(esrc(e) for e in a) + "]"
    bsrc = "[" + ", ".join(esrc(e) for e in b) + "]"
    kfarg = ", function(e) e[0]" if tagged else ""
    bkeys = [kf(e) for e in b]
    akeys = [kf(e) for e in a]
    union = sorted(a + [e for e in b if kf(e) not in akeys], key=kf)
    inter = [e for e in a if kf(e) in bkeys]
    diff = [e for e in a if kf(e) not in bkeys]
    x = case["x"]
    xe = [x, "X"] if tagged else x
    tests = [
        (f"std.setUnion({asrc}, {bsrc}{kfarg})", union),
        (f"std.setInter({asrc}, {bsrc}{kfarg})", inter),
        (f"std.setDiff({asrc}, {bsrc}{kfarg})", diff),
        (f"std.setMember({esrc(xe)}, {asrc}{kfarg})", x in akeys),
        (f"std.setMember({esrc(xe)}, {bsrc}{kfarg})", x in bkeys),
        (f"std.setUnion({asrc}, {asrc}{kfarg})", a),
        (f"std.setInter({asrc}, {asrc}{kfarg})", a),
        (f"std.setDiff({asrc}, {asrc}{kfarg})", []),
        (f"std.set({asrc}{kfarg})", a),
    ]
    res = util.eval_exprs([e for e, _ in tests], want=["typed"])
    for (e, exp), r in zip(tests, res):
        if not util.is_ok(r):
            raise Violation("error:" + e.split("(")[0], f"{e[:300]} failed: {r['err'].get('variant')} {r['err'].get('detail')}")
        got = util.typed(r)
        if not V.same(got, T(exp), zero_sign=True):
            raise Violation("wrong:" + e.split("(")[0], f"{e[:400]} = {V.show(got)[:300]}, expected {V.show(T(exp))[:300]}")
    return {"nontrivial": len(inter) > 0, "labels": [case["pattern"]], "sample": {"a": asrc[:120], "b": bsrc[:120]}}


CHECKS = [
    Check("sort_uniq_set_minmax", check_sort, sort_case, quick=300, thorough=10000),
    Check("set_algebra", check_sets, set_case, quick=300, thorough=10000),
]
