"""C02 - the core language evaluates as the Jsonnet specification defines."""
from hypothesis import strategies as st

from ..core import Check, Violation
from ..gen import printer as P
from ..gen import programs as G
from ..gen import values as V
from ..ref import interp
from .. import util
from .c15 import chooser

PROPERTY = "C02"
RULE = ("closed, terminating programs from a type-directed, scope-tracking generator over the core language (literals, "
        "arithmetic/bitwise/logical/comparison operators, string/array concatenation and indexing, slices, locals, "
        "functions with default and named arguments, bounded recursion, conditionals, array and object comprehensions, "
        "objects with inheritance chains in every bracketing, self / super.f / super[e] / e in super / $, all "
        "visibilities, +: fields, object locals, asserts, computed and null field names, error), printed with varied "
        "parenthesisation/whitespace/spelling; oracle = a lazy reference interpreter written from the specification "
        "(value equality; explicit errors and failed assertions with the same message; other failures must fail). "
        "Non-trivial = >= 2 distinct feature classes from {inheritance, super, +:, visibility change, comprehension, "
        "named/default argument, object local, assert, slice, computed name} and >= 30 reference evaluation steps; "
        "distinct by SHA-1 of the case")

CLASSES = {"inheritance", "super", "plus-field", "visibility", "comprehension", "object-comprehension", "named-arg", "default-arg", "object-local",
           "assert", "assert-expr", "slice", "computed-name", "self", "dollar", "in-super", "override", "recursion", "object-extension"}


def py_to_typed(v):
    if v is None or isinstance(v, (bool, str)):
        return v
    if isinstance(v, float):
        return V.num(v)
    if isinstance(v, list):
        return {"a": [py_to_typed(x) for x in v]}
    return {"o": [[k, py_to_typed(x)] for k, x in sorted(v.items())]}


@st.composite
def program_case(draw):
    c = draw(G.programs(max_depth=draw(st.sampled_from([3, 4, 5])), ill_typed_rate=draw(st.sampled_from([0, 0, 0, 25]))))
    c["choices"] = draw(st.lists(st.integers(0, 1000), min_size=6, max_size=30))
    c["parens"] = draw(st.sampled_from(["minimal", "minimal", "random", "full"]))
    c["spacing"] = draw(st.sampled_from(["normal", "tight", "noisy"]))
    return c


def check_program(case):
    tree = case["tree"]
    I = interp.Interp(200_000)
    ref = interp.evaluate(tree)
    if ref[0] == "limit":
        return {"labels": ["ref-limit"]}
    if ref[0] == "error" and ref[1] == "static":
        raise RuntimeError(f"generator produced an ill-scoped program: {ref}")
    text, _ = P.print_tree(tree, chooser(case["choices"]), case["parens"], case["spacing"])
    r = util.request({"op": "eval", "src": text, "want": ["multi", "typed"], "fuel": 5_000_000, "max_stack": 2000}, what=text[:400])
    if "err" in r and r["err"].get("fuel"):
        return {"labels": ["impl-fuel"]}
    if ref[0] == "value":
        if "ok" not in r:
            raise Violation("spec-value-impl-error", f"the specification gives {str(ref[1])[:200]} but evaluation failed ({r['err'].get('phase')}/{r['err'].get('variant')}: {r['err'].get('detail')}) for {text[:600]!r}")
        want = py_to_typed(ref[1])
        got = r["ok"]["typed"]
        if not V.same(got, want, zero_sign=False):
            raise Violation("spec-value-differs", f"the specification gives {V.show(want)[:300]}, the implementation {V.show(got)[:300]} for {text[:600]!r}")
        out = "value"
    else:
        _, kind, msg = ref
        if "ok" in r:
            raise Violation("spec-error-impl-value", f"the specification makes the program fail ({kind}: {msg}) but it evaluated to {V.show(r['ok']['typed'])[:200]}: {text[:600]!r}")
        e = r["err"]
        if e.get("phase") in ("lex", "parse", "analyze"):
            raise Violation("spec-error-impl-static", f"a well-formed program was rejected before evaluation ({e.get('variant')} {e.get('detail')}): {text[:600]!r}")
        if "ill-typed" in case["features"]:
            # a second potentially failing site exists (the injected ill-typed sub-term): which failure is reported
            # first is an evaluation-order detail, so only "fails" is compared
            kind = "other"
        if kind == "explicit":
            if e["variant"] != "ExplicitError" or e["detail"]["message"] != msg:
                raise Violation("explicit-error-differs", f"expected `error` with message {msg!r}, got {e['variant']} {e.get('detail')}: {text[:600]!r}")
        elif kind == "assert":
            if e["variant"] != "AssertFailed" or e["detail"]["message"] != msg:
                raise Violation("assert-error-differs", f"expected a failed assertion with message {msg!r}, got {e['variant']} {e.get('detail')}: {text[:600]!r}")
        out = "error:" + kind
    feats = set(case["features"])
    nt = len(feats & CLASSES) >= 2
    return {"nontrivial": nt, "labels": [out] + sorted(feats & {"inheritance", "super", "self", "plus-field", "object-comprehension", "default-arg"})[:3],
            "sample": text[:400]}


# ---- every core construct over operands of every type (well-typed or not) ----------------------------------------------
# The typed generator above keeps programs mostly well typed; the specification also fixes what happens when an operand has
# the "wrong" type (`true && 1` is an error, `[1] + "a"` a string, `{a: [1]} + {a+: [2]}` is `[1, 2]` in that order ...).
# Templates are source text; the tree the reference interpreter runs is the parser's (C15 decides the parser).
OPERANDS = [
    "null", "true", "false", "0", "1", "-1", "2", "3", "1.5", "64", "-0", "1e300", "9007199254740993",
    "''", "'a'", "'b'", "'ab'", "'\u00e9\ud83d\ude00'", "'1'",
    "[]", "[1]", "[1, 2, 3]", "['a']", "[[1]]", "[null]", "[1, 'a']", "[error 'lazy', 2]",
    "{}", "{a: 1}", "{a: 1, b:: 2}", "{b: 'x'}", "{a: [1]}", "{a: {b: 1}}", "{a: 1, assert self.a > 0 : 'pos'}", "{a: -1, assert self.a > 0 : 'pos'}",
    "(function(x) x)", "(function(x, y=2) [x, y])", "(function() 7)",
]
BIN_TEXT = ["+", "-", "*", "/", "%", "<<", ">>", "<", "<=", ">", ">=", "==", "!=", "&", "^", "|", "&&", "||", "in"]
TEMPLATES = [f"{{A}} {op} {{B}}" for op in BIN_TEXT] * 2 + [
    "-{A}", "+{A}", "!{A}", "~{A}",
    "if {A} then {B} else {C}", "if {A} then {B}", "if {A} == {B} then {C} else {D}",
    "{A}[{B}]", "{A}[{B}:{C}]", "{A}[{B}:{C}:{D}]", "{A}[::{B}]", "{A}[{B}:]", "{A}.a", "{A}.a.b",
    "{A}({B})", "{A}({B}, {C})", "{A}(x={B})", "{A}(y={B}, x={C})", "{A}({B}, x={C})", "{A}()",
    "error {A}", "assert {A}; {B}", "assert {A} : {B}; {C}",
    "{{[{A}]: 1}}", "{{[{A}]: 1, [{B}]: 2}}", "{{a: 1}} + {{[{A}]+: {B}}}", "{{[{A}]:: {B}}}", "{{a: {A}, [if {B} then 'b']: {C}}}",
    "[x for x in {A}]", "[x for x in {A} if {B}]", "[[x, y] for x in {A} for y in {B}]", "{{[k]: 1 for k in {A}}}", "{{[k + '']: {B} for k in {A}}}",
    "{A} {{a: 2}}", "{A} {{a+: {B}}}", "{A} + {B} + {C}", "{A} + ({B} + {C})",
    "{{a: {A}}} + {{a+: {B}}}", "{{a: {A}}} + {{a+: {B}}} + {{a+: {C}}}", "{{a: {A}}} + {{b: super.a, a+: {B}}}", "{{a:: {A}}} + {{a+: {B}}}",
    "{{a: {A}}} + {{a: super.a + {B}}}", "{{a: {A}}} + {{b: {B} in super}}", "{{a: {A}}} + {{b: super[{B}]}}", "{{a: {A}, b: self.a + {B}}}",
    "{{a: {A}}} + {{a+: {{c: super.b}}}}", "{{a: {A}}} {{a+: {B}}}.a",
    "{{a: 1, assert {A}}}.a", "{{a: 1, assert {A} : {B}}}.a", "{{a: 1, assert {A}}} + {{b: 2}}", "{A} + {{assert {B} : 'ext'}}",
    "local f(x, y={A}) = [x, y]; f({B})", "local f(x, y={A}) = [x, y]; f({B}, {C})", "local f(x) = x; f({A}, {B})", "local f(x, y) = x; f(y={A}, x={B})",
    "local f(x, y=x) = [x, y]; f({A})", "local f(x={A}) = x; f()", "local f(x) = x; f(z={A})", "local f(x) = x; f()",
    "local v = {A}; [v, v] == [{B}, {B}]", "{A} == {B} && {C} != {D}", "{A} < {B} || {C} >= {D}", "[{A}, {B}] < [{C}, {D}]", "[{A}] + [{B}] == [{C}, {D}]",
    "{{a: {A}}} == {{a: {B}}}", "{{a: {A}, b:: {B}}} == {{a: {C}}}", "{A} in {B} && {C}", "!({A} in {B}) || {C}",
    "{A} tailstrict", "{A}({B}) tailstrict",
    # scoping: a name bound by one binder (parameter, comprehension variable, object local, default argument, local) and bound again
    # further in - every use refers to the innermost binding that is in scope *at that use*, not to a later one
    "local f(b) = (local a = b; local b = {A}; [a, b]); f({B})", "[(local a = x; local x = {A}; [a, x]) for x in [{B}]]", "{{local b = {B}, r: (local a = b; local b = {A}; [a, b])}}.r",
    "(function(x, y=(local a = x; local x = {A}; [a, x])) y)({B})", "local b = {B}; (local a = b; local b = {A}; local c = a; [a, b, c])",
    "local f(x) = (local y = x; local x = {A}; local z = y; [x, y, z]); f({B})", "local x = {A}; [x, (local x = {B}; x), x, (function(x) x)({C}), [x for x in [{D}]][0], x]",
    "local x = {A}; {{local x = {B}, a: x, b: {{local x = {C}, c: x}}.c, d: x}}", "local a = {A}, b = a; local a = {B}; [a, b]", "local a = {A}; local b = a, a = {B}; [a, b]",
    "[[x, y] for x in [{A}] for y in [x] for x in [{B}]]", "local f(x, y=x) = (local x = {A}; [x, y]); f({B})", "local x = {A}; local f(y=x) = (local x = {B}; y); f()",
    "{{local v = {A}, a: {{local w = v, local v = {B}, r: [v, w]}}.r}}.a", "local v = {A}; {{a: v, b: (local v = {B}; self.a), c: v}}",
    "local o = {{local v = {A}, f(v): v, g(x): v}}; [o.f({B}), o.g({C})]", "local x = {A}; local g() = x; local x = {B}; [g(), x]",
]
WRAPS = ["(@)", "(@)", "(@)", "(local v = @; v)", "{k: @}.k", "[@][0]", "(if true then @)"]


@st.composite
def construct_case(draw):
    return {"template": draw(st.integers(0, len(TEMPLATES) - 1)), "operands": [draw(st.integers(0, len(OPERANDS) - 1)) for _ in range(4)],
            "wraps": [draw(st.integers(0, len(WRAPS) - 1)) for _ in range(4)]}


def strip_tree(t):
    if isinstance(t, list):
        return [strip_tree(x) for x in t]
    if isinstance(t, dict):
        o = {k: strip_tree(v) for k, v in t.items() if k != "span"}
        if o.get("k") == "number":
            o["text"] = o.pop("value")
        return o
    return t


def check_construct(case):
    from . import c15
    if "text" in case:  # stored regression inputs name the program itself
        case = dict(case, template=0, operands=[0, 0, 0, 0], wraps=[0, 0, 0, 0])
    tmpl = TEMPLATES[case["template"]]
    ops = {}
    for name, i, w in zip("ABCD", case["operands"], case["wraps"]):
        ops[name] = WRAPS[w].replace("@", OPERANDS[i])
    text = tmpl
    for name in "ABCD":
        text = text.replace("{" + name + "}", "\0" + name)
    text = text.replace("{{", "{").replace("}}", "}")
    for name in "ABCD":
        text = text.replace("\0" + name, ops[name])
    if "text" in case:
        text, tmpl = case["text"], "stored"
    a_is_string = OPERANDS[case["operands"][0]].startswith("'")
    if tmpl == "{A} % {B}" and a_is_string:
        return {"labels": ["format-operator"]}  # `string % x` is std.format: C19's subject, not the core language
    pr = util.request({"op": "parse", "src": text}, what=text)
    if "ok" not in pr:
        if tmpl.endswith("tailstrict") and "(" not in tmpl:
            return {"labels": ["not-syntax"]}
        raise RuntimeError(f"template does not parse: {text!r}: {pr}")
    tree = strip_tree(c15.norm(pr["ok"]["ast"]))
    ref = interp.evaluate(tree)
    if ref[0] == "limit":
        return {"labels": ["ref-limit"]}
    r = util.request({"op": "eval", "src": text, "want": ["multi", "typed"], "fuel": 2_000_000, "max_stack": 500}, what=text)
    if "err" in r and r["err"].get("fuel"):
        return {"labels": ["impl-fuel"]}
    if ref[0] == "error" and ref[1] == "static":
        if "ok" in r or r["err"].get("phase") != "analyze":
            raise Violation("spec-static-impl-differs", f"the specification rejects {text!r} statically ({ref[2]}), the implementation: {str(r)[:200]}")
        return {"labels": ["static"]}
    if ref[0] == "value":
        if "ok" not in r:
            raise Violation("spec-value-impl-error", f"the specification gives {str(ref[1])[:200]} but evaluation failed ({r['err'].get('phase')}/{r['err'].get('variant')}: {r['err'].get('detail')}) for {text!r}")
        want = py_to_typed(ref[1])
        got = r["ok"]["typed"]
        if not V.same(got, want, zero_sign=False):
            raise Violation("spec-value-differs", f"the specification gives {V.show(want)[:300]}, the implementation {V.show(got)[:300]} for {text!r}")
        out = "value"
    else:
        _, kind, msg = ref
        if "ok" in r and msg == "cannot manifest function":
            return {"labels": ["top-level-function"]}  # the engine calls a top-level function without parameters (C12's subject)
        if "ok" in r:
            raise Violation("spec-error-impl-value", f"the specification makes the program fail ({kind}: {msg}) but it evaluated to {V.show(r['ok']['typed'])[:200]}: {text!r}")
        e = r["err"]
        if e.get("phase") in ("lex", "parse", "analyze"):
            raise Violation("spec-error-impl-static", f"a well-formed program was rejected before evaluation ({e.get('variant')} {e.get('detail')}): {text!r}")
        # several operands may fail (an `error 'lazy'` element, a failing assertion, a type error): the first one met depends
        # on evaluation order, so a message is only compared when it is the only possible failure
        n_fail_sites = text.count("error ") + text.count("assert ")
        if kind == "explicit" and n_fail_sites == 1 and (e["variant"] != "ExplicitError" or e["detail"]["message"] != msg):
            raise Violation("explicit-error-differs", f"expected `error` with message {msg!r}, got {e['variant']} {e.get('detail')}: {text!r}")
        out = "error"
    return {"nontrivial": True, "labels": [out, tmpl[:24]], "sample": text[:300]}


CHECKS = [
    Check("reference_interpreter", check_program, program_case, quick=1000, thorough=12000),
    Check("constructs_over_all_operand_types", check_construct, construct_case, quick=1500, thorough=30000),
]
