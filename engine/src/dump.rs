//! Conversion of tokens, syntax trees and errors to JSON.

use rsjsonnet_lang::ast;
use rsjsonnet_lang::lexer::LexError;
use rsjsonnet_lang::parser::{ActualToken, ExpectedToken, ParseError};
use rsjsonnet_lang::program::{
    AnalyzeError, EvalError, EvalErrorKind, EvalStackTraceItem, LoadError,
};
use rsjsonnet_lang::span::{SpanContext, SpanId, SpanManager};
use rsjsonnet_lang::token::{Token, TokenKind};
use serde_json::{Value as J, json};

pub fn hex_encode(bytes: &[u8]) -> String {
    let mut s = String::with_capacity(bytes.len() * 2);
    for b in bytes {
        s.push_str(&format!("{b:02x}"));
    }
    s
}

pub fn hex_decode(s: &str) -> Result<Vec<u8>, String> {
    if s.len() % 2 != 0 {
        return Err("odd hex length".into());
    }
    let b = s.as_bytes();
    let mut out = Vec::with_capacity(b.len() / 2);
    for i in (0..b.len()).step_by(2) {
        let h = (b[i] as char).to_digit(16).ok_or("bad hex")?;
        let l = (b[i + 1] as char).to_digit(16).ok_or("bad hex")?;
        out.push((h * 16 + l) as u8);
    }
    Ok(out)
}

/// Resolves spans to `(source index, start, end)`.
pub struct SpanResolver<'a> {
    pub mgr: &'a SpanManager,
}

impl SpanResolver<'_> {
    pub fn span(&self, span: SpanId) -> J {
        let (ctx, s, e) = self.mgr.get_span(span);
        let SpanContext::Source(src) = self.mgr.get_context(ctx);
        // `SourceId` has no public accessor; its Debug form is `SourceId(n)`.
        let dbg = format!("{src:?}");
        let n: i64 = dbg
            .trim_start_matches("SourceId(")
            .trim_end_matches(')')
            .parse()
            .unwrap_or(-1);
        json!([n, s, e])
    }

    pub fn opt_span(&self, span: Option<SpanId>) -> J {
        match span {
            Some(s) => self.span(s),
            None => J::Null,
        }
    }
}

pub fn token_to_json(r: &SpanResolver<'_>, tok: &Token<'_, '_>) -> J {
    let sp = r.span(tok.span);
    match tok.kind {
        TokenKind::EndOfFile => json!({"k": "eof", "span": sp}),
        TokenKind::Whitespace => json!({"k": "ws", "span": sp}),
        TokenKind::Comment => json!({"k": "comment", "span": sp}),
        TokenKind::Simple(k) => json!({"k": "simple", "v": format!("{k:?}"), "span": sp}),
        TokenKind::OtherOp(op) => json!({"k": "op", "v": op, "span": sp}),
        TokenKind::Ident(id) => json!({"k": "ident", "v": id.value(), "span": sp}),
        TokenKind::Number(n) => json!({"k": "number", "digits": n.digits, "exp": n.exp, "span": sp}),
        TokenKind::String(s) => json!({"k": "string", "v": s, "span": sp}),
        TokenKind::TextBlock(s) => json!({"k": "textblock", "v": s, "span": sp}),
    }
}

pub fn lex_error_to_json(r: &SpanResolver<'_>, e: &LexError) -> J {
    let (variant, span, extra) = match e {
        LexError::InvalidChar { span, chr } => ("InvalidChar", *span, json!({"chr": *chr as u32})),
        LexError::InvalidUtf8 { span, seq } => ("InvalidUtf8", *span, json!({"seq": hex_encode(seq)})),
        LexError::UnfinishedMultilineComment { span } => ("UnfinishedMultilineComment", *span, J::Null),
        LexError::LeadingZeroInNumber { span } => ("LeadingZeroInNumber", *span, J::Null),
        LexError::MissingFracDigits { span } => ("MissingFracDigits", *span, J::Null),
        LexError::MissingExpDigits { span } => ("MissingExpDigits", *span, J::Null),
        LexError::MissingDigitAfterUnderscore { span } => ("MissingDigitAfterUnderscore", *span, J::Null),
        LexError::ExpOverflow { span } => ("ExpOverflow", *span, J::Null),
        LexError::InvalidEscapeInString { span, chr } => {
            ("InvalidEscapeInString", *span, json!({"chr": *chr as u32}))
        }
        LexError::IncompleteUnicodeEscape { span } => ("IncompleteUnicodeEscape", *span, J::Null),
        LexError::InvalidUtf16EscapeSequence { span, cu1, cu2 } => (
            "InvalidUtf16EscapeSequence",
            *span,
            json!({"cu1": cu1, "cu2": cu2}),
        ),
        LexError::UnfinishedString { span } => ("UnfinishedString", *span, J::Null),
        LexError::MissingLineBreakAfterTextBlockStart { span } => {
            ("MissingLineBreakAfterTextBlockStart", *span, J::Null)
        }
        LexError::MissingWhitespaceTextBlockStart { span } => {
            ("MissingWhitespaceTextBlockStart", *span, J::Null)
        }
        LexError::InvalidTextBlockTermination { span } => ("InvalidTextBlockTermination", *span, J::Null),
    };
    json!({"phase": "lex", "variant": variant, "spans": [r.span(span)], "detail": extra})
}

fn expected_to_json(e: &ExpectedToken) -> J {
    match e {
        ExpectedToken::Simple(k) => json!(format!("{k:?}")),
        other => json!(format!("<{other:?}>")),
    }
}

fn actual_to_json(a: &ActualToken) -> J {
    match a {
        ActualToken::EndOfFile => json!({"k": "eof"}),
        ActualToken::Simple(k) => json!({"k": "simple", "v": format!("{k:?}")}),
        ActualToken::OtherOp(s) => json!({"k": "op", "v": s}),
        ActualToken::Ident(s) => json!({"k": "ident", "v": s}),
        ActualToken::Number => json!({"k": "number"}),
        ActualToken::String => json!({"k": "string"}),
        ActualToken::TextBlock => json!({"k": "textblock"}),
    }
}

pub fn parse_error_to_json(r: &SpanResolver<'_>, e: &ParseError) -> J {
    match e {
        ParseError::Expected {
            span,
            expected,
            instead,
        } => json!({
            "phase": "parse",
            "variant": "Expected",
            "spans": [r.span(*span)],
            "detail": {
                "expected": expected.iter().map(expected_to_json).collect::<Vec<_>>(),
                "instead": actual_to_json(instead),
            }
        }),
    }
}

pub fn analyze_error_to_json(r: &SpanResolver<'_>, e: &AnalyzeError) -> J {
    let (variant, spans, detail): (&str, Vec<SpanId>, J) = match e {
        AnalyzeError::UnknownVariable { span, name } => {
            ("UnknownVariable", vec![*span], json!({"name": name}))
        }
        AnalyzeError::SelfOutsideObject { self_span } => ("SelfOutsideObject", vec![*self_span], J::Null),
        AnalyzeError::SuperOutsideObject { super_span } => {
            ("SuperOutsideObject", vec![*super_span], J::Null)
        }
        AnalyzeError::DollarOutsideObject { dollar_span } => {
            ("DollarOutsideObject", vec![*dollar_span], J::Null)
        }
        AnalyzeError::RepeatedLocalName {
            original_span,
            repeated_span,
            name,
        } => (
            "RepeatedLocalName",
            vec![*repeated_span, *original_span],
            json!({"name": name}),
        ),
        AnalyzeError::RepeatedFieldName {
            original_span,
            repeated_span,
            name,
        } => (
            "RepeatedFieldName",
            vec![*repeated_span, *original_span],
            json!({"name": name}),
        ),
        AnalyzeError::RepeatedParamName {
            original_span,
            repeated_span,
            name,
        } => (
            "RepeatedParamName",
            vec![*repeated_span, *original_span],
            json!({"name": name}),
        ),
        AnalyzeError::PositionalArgAfterNamed { arg_span } => {
            ("PositionalArgAfterNamed", vec![*arg_span], J::Null)
        }
        AnalyzeError::TextBlockAsImportPath { span } => ("TextBlockAsImportPath", vec![*span], J::Null),
        AnalyzeError::ComputedImportPath { span } => ("ComputedImportPath", vec![*span], J::Null),
    };
    json!({
        "phase": "analyze",
        "variant": variant,
        "spans": spans.iter().map(|s| r.span(*s)).collect::<Vec<_>>(),
        "detail": detail,
    })
}

pub fn load_error_to_json(r: &SpanResolver<'_>, e: &LoadError) -> J {
    match e {
        LoadError::Lex(e) => lex_error_to_json(r, e),
        LoadError::Parse(e) => parse_error_to_json(r, e),
        LoadError::Analyze(e) => analyze_error_to_json(r, e),
    }
}

fn stack_item_to_json(r: &SpanResolver<'_>, item: &EvalStackTraceItem) -> J {
    match item {
        EvalStackTraceItem::Expr { span } => json!({"k": "Expr", "span": r.span(*span)}),
        EvalStackTraceItem::Call { span, name } => {
            json!({"k": "Call", "span": r.opt_span(*span), "name": name})
        }
        EvalStackTraceItem::Variable { span, name } => {
            json!({"k": "Variable", "span": r.span(*span), "name": name})
        }
        EvalStackTraceItem::ArrayItem { span, index } => {
            json!({"k": "ArrayItem", "span": r.opt_span(*span), "index": index})
        }
        EvalStackTraceItem::ObjectField { span, name } => {
            json!({"k": "ObjectField", "span": r.opt_span(*span), "name": name})
        }
        EvalStackTraceItem::CompareArrayItem { index } => json!({"k": "CompareArrayItem", "index": index}),
        EvalStackTraceItem::CompareObjectField { name } => json!({"k": "CompareObjectField", "name": name}),
        EvalStackTraceItem::ManifestArrayItem { index } => json!({"k": "ManifestArrayItem", "index": index}),
        EvalStackTraceItem::ManifestObjectField { name } => {
            json!({"k": "ManifestObjectField", "name": name})
        }
        EvalStackTraceItem::Import { span } => json!({"k": "Import", "span": r.span(*span)}),
    }
}

/// Long traces are shortened to their first and last 1000 items (`stack_len` keeps the real length).
pub fn stack_to_json(r: &SpanResolver<'_>, stack: &[EvalStackTraceItem]) -> J {
    if stack.len() > 2000 {
        let head = stack[..1000].iter();
        let tail = stack[stack.len() - 1000..].iter();
        return J::Array(head.chain(tail).map(|i| stack_item_to_json(r, i)).collect());
    }
    J::Array(stack.iter().map(|i| stack_item_to_json(r, i)).collect())
}

pub fn eval_error_to_json(r: &SpanResolver<'_>, e: &EvalError, phase: &str) -> J {
    use EvalErrorKind as K;
    let t = |t: &rsjsonnet_lang::program::EvalErrorValueType| json!(format!("{t:?}"));
    let (variant, span, detail): (&str, Option<SpanId>, J) = match &e.kind {
        K::StackOverflow => ("StackOverflow", None, J::Null),
        K::InfiniteRecursion => ("InfiniteRecursion", None, J::Null),
        K::InvalidIndexedType { span, got_type } => {
            ("InvalidIndexedType", Some(*span), json!({"got": t(got_type)}))
        }
        K::InvalidSlicedType { span, got_type } => {
            ("InvalidSlicedType", Some(*span), json!({"got": t(got_type)}))
        }
        K::SliceIndexOrStepIsNotNumber { span, got_type } => (
            "SliceIndexOrStepIsNotNumber",
            Some(*span),
            json!({"got": t(got_type)}),
        ),
        K::StringIndexIsNotNumber { span, got_type } => {
            ("StringIndexIsNotNumber", Some(*span), json!({"got": t(got_type)}))
        }
        K::ArrayIndexIsNotNumber { span, got_type } => {
            ("ArrayIndexIsNotNumber", Some(*span), json!({"got": t(got_type)}))
        }
        K::NumericIndexIsNotValid { span, index } => {
            ("NumericIndexIsNotValid", Some(*span), json!({"index": index}))
        }
        K::NumericIndexOutOfRange {
            span,
            index,
            length,
        } => (
            "NumericIndexOutOfRange",
            Some(*span),
            json!({"index": index, "length": length}),
        ),
        K::ObjectIndexIsNotString { span, got_type } => {
            ("ObjectIndexIsNotString", Some(*span), json!({"got": t(got_type)}))
        }
        K::RepeatedFieldName { span, name } => ("RepeatedFieldName", Some(*span), json!({"name": name})),
        K::FieldNameIsNotString { span, got_type } => {
            ("FieldNameIsNotString", Some(*span), json!({"got": t(got_type)}))
        }
        K::UnknownObjectField { span, field_name } => {
            ("UnknownObjectField", Some(*span), json!({"name": field_name}))
        }
        K::FieldOfNonObject { span } => ("FieldOfNonObject", Some(*span), J::Null),
        K::SuperWithoutSuperObject { span } => ("SuperWithoutSuperObject", Some(*span), J::Null),
        K::ForSpecValueIsNotArray { span, got_type } => {
            ("ForSpecValueIsNotArray", Some(*span), json!({"got": t(got_type)}))
        }
        K::CondIsNotBool { span, got_type } => ("CondIsNotBool", Some(*span), json!({"got": t(got_type)})),
        K::CalleeIsNotFunction { span, got_type } => {
            ("CalleeIsNotFunction", *span, json!({"got": t(got_type)}))
        }
        K::TooManyCallArgs { span, num_params } => {
            ("TooManyCallArgs", *span, json!({"num_params": num_params}))
        }
        K::UnknownCallParam { span, param_name } => ("UnknownCallParam", *span, json!({"name": param_name})),
        K::RepeatedCallParam { span, param_name } => {
            ("RepeatedCallParam", *span, json!({"name": param_name}))
        }
        K::CallParamNotBound { span, param_name } => {
            ("CallParamNotBound", *span, json!({"name": param_name}))
        }
        K::NativeCallFailed => ("NativeCallFailed", None, J::Null),
        K::InvalidUnaryOpType { span, op, rhs_type } => (
            "InvalidUnaryOpType",
            Some(*span),
            json!({"op": format!("{op:?}"), "rhs": t(rhs_type)}),
        ),
        K::InvalidBinaryOpTypes {
            span,
            op,
            lhs_type,
            rhs_type,
        } => (
            "InvalidBinaryOpTypes",
            *span,
            json!({"op": format!("{op:?}"), "lhs": t(lhs_type), "rhs": t(rhs_type)}),
        ),
        K::NumberNotBitwiseSafe { span } => ("NumberNotBitwiseSafe", *span, J::Null),
        K::NumberOverflow { span } => ("NumberOverflow", *span, J::Null),
        K::NumberNan { span } => ("NumberNan", *span, J::Null),
        K::DivByZero { span } => ("DivByZero", *span, J::Null),
        K::ShiftByNegative { span } => ("ShiftByNegative", *span, J::Null),
        K::InvalidStdFuncArgType {
            func_name,
            arg_index,
            expected_types,
            got_type,
        } => (
            "InvalidStdFuncArgType",
            None,
            json!({
                "func": func_name,
                "arg": arg_index,
                "expected": expected_types.iter().map(t).collect::<Vec<_>>(),
                "got": t(got_type),
            }),
        ),
        K::AssertFailed { span, message } => ("AssertFailed", Some(*span), json!({"message": message})),
        K::AssertEqualFailed { lhs, rhs } => ("AssertEqualFailed", None, json!({"lhs": lhs, "rhs": rhs})),
        K::ExplicitError { span, message } => ("ExplicitError", Some(*span), json!({"message": message})),
        K::ImportFailed { span, path } => ("ImportFailed", Some(*span), json!({"path": path})),
        K::UnknownExtVar { name } => ("UnknownExtVar", None, json!({"name": name})),
        K::ManifestFunction => ("ManifestFunction", None, J::Null),
        K::CompareNullInequality => ("CompareNullInequality", None, J::Null),
        K::CompareBooleanInequality => ("CompareBooleanInequality", None, J::Null),
        K::CompareObjectInequality => ("CompareObjectInequality", None, J::Null),
        K::CompareFunctions => ("CompareFunctions", None, J::Null),
        K::CompareDifferentTypesInequality { lhs_type, rhs_type } => (
            "CompareDifferentTypesInequality",
            None,
            json!({"lhs": t(lhs_type), "rhs": t(rhs_type)}),
        ),
        K::PrimitiveEqualsNonPrimitive { got_type } => {
            ("PrimitiveEqualsNonPrimitive", None, json!({"got": t(got_type)}))
        }
        K::Other { span, message } => ("Other", *span, json!({"message": message})),
    };
    let spans: Vec<J> = span.iter().map(|s| r.span(*s)).collect();
    json!({
        "phase": phase,
        "variant": variant,
        "spans": spans,
        "detail": detail,
        "stack": stack_to_json(r, &e.stack_trace),
        "stack_len": e.stack_trace.len(),
    })
}

// ---------------------------------------------------------------------------------------------
// AST

pub struct AstDumper<'a> {
    pub r: SpanResolver<'a>,
}

impl AstDumper<'_> {
    fn sp(&self, s: SpanId) -> J {
        let v = self.r.span(s);
        json!([v[1], v[2]])
    }

    fn ident(&self, id: &ast::Ident<'_>) -> J {
        json!({"name": id.value.value(), "span": self.sp(id.span)})
    }

    fn opt(&self, e: Option<&ast::Expr<'_, '_>>) -> J {
        match e {
            Some(e) => self.expr(e),
            None => J::Null,
        }
    }

    fn params(&self, ps: &[ast::Param<'_, '_>]) -> J {
        J::Array(
            ps.iter()
                .map(|p| json!({"name": self.ident(&p.name), "default": self.opt(p.default_value.as_ref())}))
                .collect(),
        )
    }

    fn bind(&self, b: &ast::Bind<'_, '_>) -> J {
        match b.params {
            Some((ps, span)) => json!({
                "name": self.ident(&b.name),
                "params": self.params(ps),
                "params_span": self.sp(span),
                "value": self.expr(&b.value),
            }),
            None => json!({"name": self.ident(&b.name), "params": J::Null, "value": self.expr(&b.value)}),
        }
    }

    fn comp_spec(&self, parts: &[ast::CompSpecPart<'_, '_>]) -> J {
        J::Array(
            parts
                .iter()
                .map(|p| match p {
                    ast::CompSpecPart::For(f) => {
                        json!({"k": "for", "var": self.ident(&f.var), "inner": self.expr(&f.inner)})
                    }
                    ast::CompSpecPart::If(i) => json!({"k": "if", "cond": self.expr(&i.cond)}),
                })
                .collect(),
        )
    }

    fn assert(&self, a: &ast::Assert<'_, '_>) -> J {
        json!({"span": self.sp(a.span), "cond": self.expr(&a.cond), "msg": self.opt(a.msg.as_ref())})
    }

    fn vis(v: ast::Visibility) -> &'static str {
        match v {
            ast::Visibility::Default => ":",
            ast::Visibility::Hidden => "::",
            ast::Visibility::ForceVisible => ":::",
        }
    }

    fn field_name(&self, n: &ast::FieldName<'_, '_>) -> J {
        match n {
            ast::FieldName::Ident(id) => json!({"k": "ident", "name": id.value.value(), "span": self.sp(id.span)}),
            ast::FieldName::String(s, span) => json!({"k": "string", "name": s.value(), "span": self.sp(*span)}),
            ast::FieldName::Expr(e, span) => json!({"k": "expr", "expr": self.expr(e), "span": self.sp(*span)}),
        }
    }

    fn obj_inside(&self, o: &ast::ObjInside<'_, '_>) -> J {
        match o {
            ast::ObjInside::Members(ms) => json!({
                "k": "members",
                "members": ms.iter().map(|m| match m {
                    ast::Member::Local(l) => json!({"k": "local", "bind": self.bind(&l.bind)}),
                    ast::Member::Assert(a) => json!({"k": "assert", "assert": self.assert(a)}),
                    ast::Member::Field(ast::Field::Value(name, plus, vis, value)) => json!({
                        "k": "field", "name": self.field_name(name), "plus": plus,
                        "vis": Self::vis(*vis), "value": self.expr(value),
                    }),
                    ast::Member::Field(ast::Field::Func(name, params, pspan, vis, value)) => json!({
                        "k": "method", "name": self.field_name(name), "params": self.params(params),
                        "params_span": self.sp(*pspan), "vis": Self::vis(*vis), "value": self.expr(value),
                    }),
                }).collect::<Vec<_>>(),
            }),
            ast::ObjInside::Comp {
                locals1,
                name,
                plus,
                body,
                locals2,
                comp_spec,
            } => json!({
                "k": "comp",
                "locals1": locals1.iter().map(|l| self.bind(&l.bind)).collect::<Vec<_>>(),
                "name": self.expr(name),
                "plus": plus,
                "body": self.expr(body),
                "locals2": locals2.iter().map(|l| self.bind(&l.bind)).collect::<Vec<_>>(),
                "spec": self.comp_spec(comp_spec),
            }),
        }
    }

    pub fn expr(&self, e: &ast::Expr<'_, '_>) -> J {
        use ast::ExprKind as K;
        let sp = self.sp(e.span);
        match &e.kind {
            K::Null => json!({"k": "null", "span": sp}),
            K::Bool(b) => json!({"k": "bool", "v": b, "span": sp}),
            K::SelfObj => json!({"k": "self", "span": sp}),
            K::Dollar => json!({"k": "dollar", "span": sp}),
            K::String(s) => json!({"k": "string", "v": s, "span": sp}),
            K::TextBlock(s) => json!({"k": "textblock", "v": s, "span": sp}),
            K::Number(n) => json!({"k": "number", "digits": n.digits, "exp": n.exp, "span": sp}),
            K::Paren(inner) => json!({"k": "paren", "e": self.expr(inner), "span": sp}),
            K::Object(o) => json!({"k": "object", "inside": self.obj_inside(o), "span": sp}),
            K::Array(items) => {
                json!({"k": "array", "items": items.iter().map(|i| self.expr(i)).collect::<Vec<_>>(), "span": sp})
            }
            K::ArrayComp(body, spec) => {
                json!({"k": "arraycomp", "body": self.expr(body), "spec": self.comp_spec(spec), "span": sp})
            }
            K::Field(obj, id) => json!({"k": "field", "e": self.expr(obj), "name": self.ident(id), "span": sp}),
            K::Index(obj, idx) => json!({"k": "index", "e": self.expr(obj), "index": self.expr(idx), "span": sp}),
            K::Slice(obj, a, b, c) => json!({
                "k": "slice", "e": self.expr(obj), "start": self.opt(*a), "end": self.opt(*b),
                "step": self.opt(*c), "span": sp,
            }),
            K::SuperField(ssp, id) => {
                json!({"k": "superfield", "super_span": self.sp(*ssp), "name": self.ident(id), "span": sp})
            }
            K::SuperIndex(ssp, idx) => {
                json!({"k": "superindex", "super_span": self.sp(*ssp), "index": self.expr(idx), "span": sp})
            }
            K::Call(f, args, tailstrict) => json!({
                "k": "call", "f": self.expr(f), "tailstrict": tailstrict,
                "args": args.iter().map(|a| match a {
                    ast::Arg::Positional(e) => json!({"name": J::Null, "e": self.expr(e)}),
                    ast::Arg::Named(id, e) => json!({"name": self.ident(id), "e": self.expr(e)}),
                }).collect::<Vec<_>>(),
                "span": sp,
            }),
            K::Ident(id) => json!({"k": "ident", "name": id.value.value(), "span": sp}),
            K::Local(binds, body) => json!({
                "k": "local", "binds": binds.iter().map(|b| self.bind(b)).collect::<Vec<_>>(),
                "body": self.expr(body), "span": sp,
            }),
            K::If(c, t, f) => json!({
                "k": "if", "cond": self.expr(c), "then": self.expr(t), "else": self.opt(*f), "span": sp,
            }),
            K::Binary(l, op, r) => json!({
                "k": "binary", "op": format!("{op:?}"), "l": self.expr(l), "r": self.expr(r), "span": sp,
            }),
            K::Unary(op, r) => json!({"k": "unary", "op": format!("{op:?}"), "e": self.expr(r), "span": sp}),
            K::ObjExt(l, inside, isp) => json!({
                "k": "objext", "e": self.expr(l), "inside": self.obj_inside(inside),
                "inside_span": self.sp(*isp), "span": sp,
            }),
            K::Func(params, body) => {
                json!({"k": "func", "params": self.params(params), "body": self.expr(body), "span": sp})
            }
            K::Assert(a, body) => {
                json!({"k": "assert", "assert": self.assert(a), "body": self.expr(body), "span": sp})
            }
            K::Import(p) => json!({"k": "import", "path": self.expr(p), "span": sp}),
            K::ImportStr(p) => json!({"k": "importstr", "path": self.expr(p), "span": sp}),
            K::ImportBin(p) => json!({"k": "importbin", "path": self.expr(p), "span": sp}),
            K::Error(m) => json!({"k": "error", "e": self.expr(m), "span": sp}),
            K::InSuper(l, ssp) => {
                json!({"k": "insuper", "e": self.expr(l), "super_span": self.sp(*ssp), "span": sp})
            }
        }
    }
}
