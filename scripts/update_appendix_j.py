#!/usr/bin/env python3
"""Rewrites Appendix J of DESIGN.md (between the APPENDIX-J markers) from seeded/*/ via scripts/seed_meta.py."""
import os, re, subprocess, sys
ROOT = os.path.dirname(os.path.dirname(os.path.abspath(__file__)))
table = subprocess.run([sys.executable, os.path.join(ROOT, "scripts", "seed_meta.py")], capture_output=True, text=True, check=True).stdout
rows = [l for l in table.splitlines() if l.startswith("| C")]
first_missed = sum(1 for l in rows if " missed" in l.split("|")[3])
now_missed = sum(1 for l in rows if "MISSED" in l.split("|")[4] and "caught" not in l.split("|")[4])
head = f"""## Appendix J — seeded changes: which check catches which change

{len(rows)} changes to `/repo`, each written by an independent sub-agent that was given only the text of one property and a scratch
worktree (nothing from `/verif`), each confirmed by me in a scratch worktree (`scripts/seed_confirm.sh`: it compiles, the
repository's unedited suite still passes — 754/754 —, the agent's demonstration fails with the change and passes without it), then
run against the property's registered quick check on a scratch worktree (`scripts/mutant_scratch.sh`; `/repo` itself is never
modified). Kept under `seeded/<id>/` (patch.diff, demo.sh, meta.json, confirm.log, check_result.txt). Rounds: A/B (all 20
properties), C/D (13 properties), E/F (all 20, session 3), G/H (10 properties, session 3). "first exposure" is the verdict of the quick check as it was when the change was
first confirmed ({first_missed} changes were missed by at least one of the checks run against them); every miss led to a strengthening of the generator or oracle (last column) — never to a
special case for the change — and the table's "now" column is the verdict of the committed checks ({now_missed} not caught by any
listed check). Where the column names a second property, the change falls into that property's domain as well (e.g. a literal-rounding
change written for C02 is C06's subject) and that property's check is the one that is expected to catch it.

"""
doc = open(os.path.join(ROOT, "DESIGN.md"), encoding="utf-8").read()
block = "<!-- APPENDIX-J-BEGIN -->\n" + head + table + "<!-- APPENDIX-J-END -->\n"
if "<!-- APPENDIX-J-BEGIN -->" in doc:
    doc = re.sub(r"<!-- APPENDIX-J-BEGIN -->.*<!-- APPENDIX-J-END -->\n", lambda m: block, doc, flags=re.S)
else:
    doc = doc.rstrip("\n") + "\n\n" + block
open(os.path.join(ROOT, "DESIGN.md"), "w", encoding="utf-8").write(doc)
print(f"{len(rows)} rows, {first_missed} missed at first exposure, {now_missed} missed now")
