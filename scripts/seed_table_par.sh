#!/bin/bash
# scripts/seed_table_par.sh [-j N] [seed-id ...]
# Like seed_table.sh, but spreads the seeded changes over N scratch slots (/tmp/mut/<slot>) that run side by side.
# Without ids: every seeded/C*-[A-Z]. Verdicts land in seeded/<id>/check_result.txt.
cd "$(dirname "$0")/.."
jobs=3
if [ "${1:-}" = "-j" ]; then jobs=$2; shift 2; fi
if [ $# -gt 0 ]; then ids=("$@"); else ids=($(ls -d seeded/C*-[A-Z] | xargs -n1 basename)); fi
one() {
  slot=$1; shift
  for id in "$@"; do
    d=seeded/$id; prop=${id%-*}
    : > $d/check_result.txt
    for p in $prop $(cat $d/also.txt 2>/dev/null); do
      out=$(MUT_SLOT=$slot ./scripts/mutant_scratch.sh $d/patch.diff $p 2>&1)
      rc=$(echo "$out" | grep -oE "exit=[0-9]+" | tail -1)
      sigs=$(echo "$out" | grep "signature:" | sed 's/.*signature: //' | sort -u | tr '\n' ' ')
      echo "$p $rc signatures: $sigs" >> $d/check_result.txt
      echo "$id vs $p: $rc $sigs"
    done
  done
}
for ((s = 0; s < jobs; s++)); do
  mine=()
  for ((i = s; i < ${#ids[@]}; i += jobs)); do mine+=("${ids[$i]}"); done
  [ ${#mine[@]} -gt 0 ] && one $((s + 10)) "${mine[@]}" &
done
wait
