"""C05 - every emitted document is well-formed and decodes to the value it came from."""
import ast as pyast
import tomllib

from hypothesis import strategies as st

from ..core import Check, Violation
from ..engine import EngineDied, engine
from ..gen import values as V
from ..ref import jsonstrict
from .. import util

PROPERTY = "C05"
RULE = ("values from a recursive generator (boundary/random doubles, strings over a mixed alphabet with every C0/C1 "
        "control, astral and YAML-hostile strings, keys needing escapes, empty containers) x manifest settings; "
        "non-trivial = the value contains a character that needs escaping or is non-ASCII, a double that is not a "
        "small integer, a key that is not a plain identifier, or nesting >= 2; distinct by SHA-1 of the case")


def nontrivial_value(v):
    import re
    for x in V.walk(v):
        if isinstance(x, str):
            if not re.fullmatch(r"[A-Za-z_][A-Za-z0-9_]*", x):
                return True
        elif V.is_num(x):
            f = V.h2f(x["n"])
            if f != int(f) or abs(f) > 1000:
                return True
    return V.depth(v) >= 2


def call_value(value, codes, api=False):
    req = {"op": "value", "value": value, "codes": codes, "fuel": 5_000_000}
    if api:
        req["want"] = ["api"]
    try:
        resp = engine().request(req)
    except EngineDied as e:
        raise Violation("engine-died", f"engine died (status {e.status}) manifesting {V.show(value)}: {e.stderr[-300:]}")
    if "panic" in resp:
        raise Violation("panic:" + resp["panic"]["loc"], f"panic {resp['panic']} manifesting {V.show(value)}")
    if "results" not in resp:
        raise Violation("bad-response", f"unexpected response {resp}")
    return resp["results"]


def expect_text(res, what, value):
    if "ok" not in res:
        raise Violation(f"manifest-error:{what}", f"{what} failed on {V.show(value)}: {res.get('err')}")
    ok = res["ok"]
    t = ok.get("text", ok.get("typed"))
    if not isinstance(t, str):
        raise Violation(f"not-a-string:{what}", f"{what} returned {t!r}")
    return t


def check_json_text(text, value, what):
    try:
        got = jsonstrict.loads_typed(text)
    except jsonstrict.NotJson as e:
        raise Violation(f"invalid-json", f"{what} emitted invalid JSON ({e}) for {V.show(value)}: {text[:300]!a}")
    probs = list(jsonstrict.key_problems(got))
    if probs:
        raise Violation("json-key-order", f"{what}: {probs[0]} for {V.show(value)}: {text[:300]!a}")
    if not V.same(got, value):
        raise Violation("json-roundtrip", f"{what} does not decode to the value: value={V.show(value)} "
                        f"decoded={V.show(got)} text={text[:300]!a}")


# ---------------------------------------------------------------------------------------------
# 1. JSON family through the API-built value

@st.composite
def json_case(draw):
    value = draw(V.typed_values(max_leaves=14))
    indent = draw(st.text(alphabet=" \t", max_size=8))
    newline = draw(st.sampled_from(["\n", "", "\r\n", " ", "\n\n", "\t"]))
    sep = draw(st.text(alphabet=" \t", max_size=2)) + ":" + draw(st.text(alphabet=" \t\n", max_size=2))
    return {"value": value, "indent": indent, "newline": newline, "sep": sep}


def check_json(case):
    v = case["value"]
    js = V.jsonnet_string
    codes = [
        f"function(v) std.manifestJsonEx(v, {js(case['indent'])})",
        f"function(v) std.manifestJsonEx(v, {js(case['indent'])}, {js(case['newline'])}, {js(case['sep'])})",
        "function(v) std.manifestJsonMinified(v)",
        "function(v) std.manifestJson(v)",
        "function(v) std.toString(v)",
        "function(v) '' + v",
        "function(v) '%s' % [v]",
        "function(v) std.toString([v])",
    ]
    names = ["manifestJsonEx(indent)", "manifestJsonEx(indent,newline,sep)", "manifestJsonMinified", "manifestJson",
             "toString", "string coercion", "%s", "toString([v])"]
    res = call_value(v, codes, api=True)
    check_json_text(expect_text(res[0], "manifest_json(multiline)", v), v, "manifest_json(multiline)")
    check_json_text(expect_text(res[1], "manifest_json(single)", v), v, "manifest_json(single)")
    for name, r in zip(names, res[2:]):
        text = expect_text(r, name, v)
        if name in ("toString", "string coercion", "%s") and isinstance(v, str):
            if text != v:
                raise Violation("tostring-of-string", f"{name} of a string changed it: {v!a} -> {text!a}")
            continue
        if name == "toString([v])":
            check_json_text(text, {"a": [v]}, name)
        else:
            check_json_text(text, v, name)
    labels = []
    if any(isinstance(x, str) and any(ord(c) < 32 for c in x) for x in V.walk(v)):
        labels.append("has-c0-control")
    if any(isinstance(x, str) and any(ord(c) > 0xffff for c in x) for x in V.walk(v)):
        labels.append("has-astral")
    labels.append(f"depth{min(V.depth(v), 4)}")
    return {"nontrivial": nontrivial_value(v), "labels": labels, "sample": {"value": V.show(v), "indent": case["indent"],
                                                                          "newline": case["newline"], "sep": case["sep"]}}


# ---------------------------------------------------------------------------------------------
# 2. Objects with hidden fields / inheritance from source: visible fields only, sorted

VIS = [":", "::", ":::"]


@st.composite
def layered_case(draw):
    names = ["a", "b", "c", "é", "z z", "A"]
    layers = []
    for _ in range(draw(st.integers(1, 3))):
        fields = draw(st.lists(st.tuples(st.sampled_from(names), st.sampled_from(VIS),
                                         V.scalars()), max_size=5, unique_by=lambda f: f[0]))
        layers.append([list(f) for f in fields])
    return {"layers": layers}


def expected_layered(layers):
    """Visible fields and values by the :, ::, ::: rules (default keeps inherited visibility)."""
    fields = {}
    for layer in layers:
        for name, vis, val in layer:
            prev_vis = fields.get(name, (None, None))[0]
            if vis == ":":
                new_vis = prev_vis if prev_vis is not None else "visible"
            elif vis == "::":
                new_vis = "hidden"
            else:
                new_vis = "visible"
            fields[name] = (new_vis, val)
    return {"o": [[k, v] for k, (vis, v) in sorted(fields.items()) if vis == "visible"]}


def check_layered(case):
    layers = case["layers"]
    src = " + ".join("{" + ", ".join(f"{V.jsonnet_string(n)}{vis} {V.to_jsonnet(val)}" for n, vis, val in layer) + "}"
                     for layer in layers)
    exp = expected_layered(layers)
    progs = [src, f"std.manifestJsonEx({src}, ' ')", f"std.toString({src})", f"std.manifestJsonMinified({src})"]
    try:
        resp = engine().request({"op": "evalmany", "exprs": progs, "want": ["multi", "single", "typed"], "fuel": 2_000_000})
    except EngineDied as e:
        raise Violation("engine-died", f"engine died on {src}: {e.stderr[-300:]}")
    if "panic" in resp:
        raise Violation("panic:" + resp["panic"]["loc"], f"panic {resp['panic']} on {src}")
    rs = resp["results"]
    for r, p in zip(rs, progs):
        if "panic" in r:
            raise Violation("panic:" + r["panic"]["loc"], f"panic {r['panic']} on {p}")
        if "ok" not in r:
            raise Violation("manifest-error:source", f"{p} failed: {r.get('err')}")
    check_json_text(rs[0]["ok"]["multi"], exp, "default manifestation (multi)")
    check_json_text(rs[0]["ok"]["single"], exp, "default manifestation (single)")
    for r, p in zip(rs[1:], progs[1:]):
        check_json_text(r["ok"]["typed"], exp, p[:24])
    hidden = sum(1 for l in layers for f in l if f[1] == "::")
    nt = len(layers) >= 2 and hidden >= 1
    return {"nontrivial": nt, "labels": [f"layers{len(layers)}"], "sample": src}


# 2b. every manifester sees only the value: an object built by inheritance, with hidden fields, as the top value / an array
# element / a field, manifests exactly like the plain object with the same visible fields; and several manifestations inside one
# program (any order) give what each gives in a program of its own
MANIFESTERS = [
    "std.manifestJsonEx(@, '  ')", "std.manifestJsonMinified(@)", "std.manifestJson(@)", "std.toString(@)", "std.manifestPython(@)",
    "std.manifestYamlDoc(@, indent_array_in_object=false, quote_keys=false)", "std.manifestYamlDoc(@, indent_array_in_object=true, quote_keys=true)",
    "std.manifestYamlStream([@, @], quote_keys=false)", "std.manifestTomlEx({t: @}, ' ')", "std.manifestToml({t: @})", "'' + @", "'%s' % [@]",
]
CONTEXTS = ["@", "[@]", "[1, @, @]", "{k: @}", "{k: [@, {j: @}]}", "[[@]]"]


@st.composite
def everywhere_case(draw):
    c = draw(layered_case())
    # TOML has no null: scalars are replaced by non-null ones
    for layer in c["layers"]:
        for f in layer:
            if f[2] is None:
                f[2] = True
    c["context"] = draw(st.integers(0, len(CONTEXTS) - 1))
    c["order"] = draw(st.permutations(list(range(len(MANIFESTERS)))))
    c["names"] = draw(st.lists(st.sampled_from(V.YAML_HOSTILE + ["a.b", "x/y", "v1.2.3", "key", "a b", "\u00e9"]), min_size=0, max_size=3, unique=True))
    return c


def check_everywhere(case):
    layers = case["layers"]
    # some field names are replaced by names that YAML and TOML quote differently
    ren = dict(zip(["a", "b", "c"], [n for n in case["names"] if n not in ("a", "b", "c", "\u00e9", "z z", "A")]))
    layers = [[[ren.get(n, n), vis, val] for n, vis, val in layer] for layer in layers]
    src = "(" + " + ".join("{" + ", ".join(f"{V.jsonnet_string(n)}{vis} {V.to_jsonnet(val)}" for n, vis, val in layer) + "}" for layer in layers) + ")"
    plain = V.to_jsonnet(expected_layered(layers))
    ctx = CONTEXTS[case["context"]]
    whole_l, whole_p = ctx.replace("@", src), ctx.replace("@", plain)
    together = "local v = " + whole_l + "; [" + ", ".join(MANIFESTERS[i].replace("@", "v") for i in case["order"]) + "]"
    alone = [m.replace("@", whole_p) for m in MANIFESTERS]
    res = util.eval_exprs([together] + alone, want=["typed"], fuel=3_000_000)
    if not util.is_ok(res[0]):
        if all(not util.is_ok(r) for r in res[1:]):
            return {"labels": ["all-fail"]}
        bad = [alone[k] for k, r in enumerate(res[1:]) if not util.is_ok(r)]
        if bad:
            return {"labels": ["some-manifester-rejects-the-value"]}
        raise Violation("manifest-error:together", f"{together[:400]} failed ({res[0]['err'].get('variant')} {res[0]['err'].get('detail')}) although every manifester accepts the plain value")
    got = util.typed(res[0])["a"]
    for pos, i in enumerate(case["order"]):
        r = res[1 + i]
        if not util.is_ok(r):
            raise Violation("manifest-error:alone", f"{alone[i][:300]} failed but the same manifester succeeded on the inherited object")
        if got[pos] != util.typed(r):
            raise Violation("manifester-sees-more-than-the-value", f"{MANIFESTERS[i]} of {whole_l[:300]} (manifestation {pos + 1} of {len(MANIFESTERS)} in one program) = {got[pos][:300]!a}, "
                                                                     f"of the plain value {whole_p[:200]} in a program of its own = {util.typed(r)[:300]!a}")
    hidden = sum(1 for l in layers for f in l if f[1] == "::")
    return {"nontrivial": hidden >= 1 or len(layers) >= 2, "labels": [f"ctx{case['context']}"], "sample": together[:300]}


# ---------------------------------------------------------------------------------------------
# 3. Python

def py_to_typed(x):
    if x is None or x is True or x is False or isinstance(x, str):
        return x
    if isinstance(x, (int, float)):
        return V.num(float(x))
    if isinstance(x, list):
        return {"a": [py_to_typed(i) for i in x]}
    if isinstance(x, dict):
        return {"o": [[k, py_to_typed(v)] for k, v in x.items()]}
    raise ValueError(f"unexpected python value {x!r}")


@st.composite
def python_case(draw):
    return {"value": draw(V.typed_values(max_leaves=10)),
            "vars": draw(st.lists(st.tuples(st.sampled_from(["a", "b", "x1", "_y", "Zed"]), V.typed_values(max_leaves=5)),
                                  max_size=3, unique_by=lambda kv: kv[0]))}


def check_python(case):
    v = case["value"]
    vars_obj = {"o": [[k, x] for k, x in sorted(case["vars"])]}
    res = call_value(v, ["function(v) std.manifestPython(v)"])
    text = expect_text(res[0], "manifestPython", v)
    try:
        got = py_to_typed(pyast.literal_eval(text))
    except (ValueError, SyntaxError, MemoryError, RecursionError) as e:
        raise Violation("invalid-python", f"manifestPython emitted text Python rejects ({e}) for {V.show(v)}: {text[:300]!a}")
    if not V.same(got, v, zero_sign=False):
        raise Violation("python-roundtrip", f"manifestPython: value={V.show(v)} decoded={V.show(got)} text={text[:300]!a}")
    res = call_value(vars_obj, ["function(v) std.manifestPythonVars(v)"])
    text = expect_text(res[0], "manifestPythonVars", vars_obj)
    try:
        tree = pyast.parse(text)
        got = {}
        for stmt in tree.body:
            if not (isinstance(stmt, pyast.Assign) and len(stmt.targets) == 1 and isinstance(stmt.targets[0], pyast.Name)):
                raise ValueError("not an assignment")
            got[stmt.targets[0].id] = py_to_typed(pyast.literal_eval(stmt.value))
    except (ValueError, SyntaxError) as e:
        raise Violation("invalid-python", f"manifestPythonVars emitted text Python rejects ({e}): {text[:300]!a}")
    gotv = {"o": [[k, x] for k, x in sorted(got.items())]}
    if not V.same(gotv, vars_obj, zero_sign=False):
        raise Violation("python-roundtrip", f"manifestPythonVars: value={V.show(vars_obj)} decoded={V.show(gotv)}")
    return {"nontrivial": nontrivial_value(v), "sample": V.show(v)}


# ---------------------------------------------------------------------------------------------
# 4. TOML (null-free objects)

def toml_to_typed(x):
    if x is True or x is False or isinstance(x, str):
        return x
    if isinstance(x, (int, float)):
        return V.num(float(x))
    if isinstance(x, list):
        return {"a": [toml_to_typed(i) for i in x]}
    if isinstance(x, dict):
        return {"o": [[k, toml_to_typed(v)] for k, v in sorted(x.items())]}
    raise ValueError(f"unexpected toml value {x!r}")


@st.composite
def toml_case(draw):
    inner = V.typed_values(max_leaves=10, allow_null=False)
    fields = draw(st.lists(st.tuples(V.keys(), inner), max_size=4, unique_by=lambda kv: kv[0]))
    return {"value": {"o": [[k, v] for k, v in sorted(fields)]}, "indent": draw(st.text(alphabet=" \t", max_size=4))}


def has_null(v):
    return any(x is None for x in V.walk(v))


def check_toml(case):
    v = case["value"]
    if has_null(v):
        return {"labels": ["skipped-null"]}
    res = call_value(v, [f"function(v) std.manifestTomlEx(v, {V.jsonnet_string(case['indent'])})", "function(v) std.manifestToml(v)"])
    for r, name in zip(res, ["manifestTomlEx", "manifestToml"]):
        text = expect_text(r, name, v)
        try:
            got = toml_to_typed(tomllib.loads(text))
        except (tomllib.TOMLDecodeError, ValueError, RecursionError) as e:
            raise Violation("invalid-toml", f"{name} emitted text tomllib rejects ({e}) for {V.show(v)}: {text[:400]!a}")
        if not V.same(got, v, zero_sign=False):
            raise Violation("toml-roundtrip", f"{name}: value={V.show(v)} decoded={V.show(got)} text={text[:400]!a}")
    return {"nontrivial": nontrivial_value(v), "sample": {"value": V.show(v), "indent": case["indent"]}}


# ---------------------------------------------------------------------------------------------
# 5. YAML (strings not ending in a newline): std.parseYaml reads the document back

# strings drawn from the grammar of the YAML 1.1 implicit resolvers themselves (every alternative, every optional part): the
# spellings a plain-scalar predicate has to recognise - and near misses of them, which may stay bare
YAML11_ALTERNATIVES = [
    r"[-+]?0b[01_]{1,6}", r"[-+]?0[0-7_]{1,6}", r"[-+]?(0|[1-9][0-9_]{0,6})", r"[-+]?0x[0-9a-fA-F_]{1,6}", r"[-+]?[1-9][0-9_]{0,3}(:[0-5]?[0-9]){1,2}",
    r"[-+]?[0-9][0-9_]{0,4}\.[0-9_]{0,4}([eE][-+][0-9]{1,3})?", r"[-+]?\.[0-9][0-9_]{0,3}([eE][-+][0-9]{1,3})?", r"[-+]?[0-9][0-9_]{0,2}(:[0-5]?[0-9]){1,2}\.[0-9_]{0,3}",
    r"[-+]?\.(inf|Inf|INF)", r"\.(nan|NaN|NAN)", r"[0-9]{4}-[0-9]{2}-[0-9]{2}", r"[0-9]{4}-[0-9]{1,2}-[0-9]{1,2}([Tt]| )[0-9]{1,2}:[0-9]{2}:[0-9]{2}(\.[0-9]{0,3})?( ?(Z|[-+][0-9]{1,2}(:[0-9]{2})?))?",
    r"yes|Yes|YES|no|No|NO|true|True|TRUE|false|False|FALSE|on|On|ON|off|Off|OFF|y|Y|n|N|~|null|Null|NULL|<<|=",
    # near misses (must not be mistaken either way by the oracle, and exercise the predicate's boundaries)
    r"[-+]?[0-9]{1,4}[eE][-+]?[0-9]{1,3}", r"[-+]?[0-9]{1,3}\.[0-9]{1,3}[eE][0-9]{1,3}", r"[-+]{2}[0-9]{1,3}", r"[0-9]{1,3}-[0-9]{1,3}", r"0[89][0-9]{0,3}", r"0x[g-z]{1,3}", r"[0-9_]{1,5}",
]


def yaml11_like():
    return st.one_of(*[st.from_regex(r, fullmatch=True) for r in YAML11_ALTERNATIVES]).filter(lambda x: "\n" not in x)


def no_trailing_newline_strings(max_size=10):
    s = st.one_of(V.strings(max_size), st.sampled_from(V.YAML_HOSTILE), st.sampled_from(V.TRICKY), yaml11_like())
    return s.filter(lambda x: not x.endswith("\n"))


@st.composite
def yaml_case(draw):
    s = no_trailing_newline_strings()
    value = draw(V.typed_values(max_leaves=12, string_strategy=s, key_strategy=st.one_of(
        st.sampled_from(["a", "b", "k1"]), s)))
    return {"value": value, "iaio": draw(st.booleans()), "quote_keys": draw(st.booleans()), "cde": draw(st.booleans()),
            "stream": draw(st.lists(V.typed_values(max_leaves=5, string_strategy=s, key_strategy=s), max_size=3))}


import re as _re

# The emitter's rule set (booleans yes/no/on/off, 0b integers, `_` in numbers, dates) targets YAML 1.1 resolution, and the
# repository's own suite blesses `1e2` as a bare key (a float only under YAML 1.2), so bare keys are judged against the
# YAML 1.1 tag resolution rules (yaml.org/type): a bare key must resolve to a string there.
_YAML11_NONSTRING = _re.compile(
    # the implicit resolvers of the de-facto YAML 1.1 loader (PyYAML): bool, null, int, float, timestamp, merge, value
    r"^(?:yes|Yes|YES|no|No|NO|true|True|TRUE|false|False|FALSE|on|On|ON|off|Off|OFF|~|null|Null|NULL||"
    r"[-+]?0b[0-1_]+|[-+]?0[0-7_]+|[-+]?(?:0|[1-9][0-9_]*)|[-+]?0x[0-9a-fA-F_]+|[-+]?[1-9][0-9_]*(?::[0-5]?[0-9])+|"
    r"[-+]?(?:[0-9][0-9_]*)\.[0-9_]*(?:[eE][-+][0-9]+)?|\.[0-9][0-9_]*(?:[eE][-+][0-9]+)?|[-+]?[0-9][0-9_]*(?::[0-5]?[0-9])+\.[0-9_]*|"
    r"[-+]?\.(?:inf|Inf|INF)|\.(?:nan|NaN|NAN)|[0-9][0-9][0-9][0-9]-[0-9][0-9]-[0-9][0-9]|"
    r"[0-9][0-9][0-9][0-9]-[0-9][0-9]?-[0-9][0-9]?(?:[Tt]|[ \t]+)[0-9][0-9]?:[0-9][0-9]:[0-9][0-9](?:\.[0-9]*)?(?:[ \t]*(?:Z|[-+][0-9][0-9]?(?::[0-9][0-9])?))?|<<|=)$")


def bare_key_problem(key):
    """Why an unquoted mapping key would not be read back as this string by a YAML parser (None if it is fine)."""
    if _YAML11_NONSTRING.match(key):
        return "resolves to a non-string under the YAML 1.1 tag resolution rules"
    if key != key.strip(" ") or any(ord(c) < 0x20 or c == "\x7f" for c in key):
        return "has leading/trailing blanks or control characters"
    if key[0] in "-?:,[]{}#&*!|>'\"%@`" and (len(key) == 1 or key[0] not in "-?:" or key[1] == " "):
        return "starts with an indicator character"
    if ": " in key or " #" in key or key.endswith(":"):
        return "contains ': ' or ' #'"
    return None


def check_bare_keys(text, what):
    """Every unquoted key of a manifestYamlDoc output must be a plain scalar that reads back as the same string."""
    for line in text.split("\n"):
        body = line.lstrip(" ")
        while body.startswith("- "):
            body = body[2:].lstrip(" ")
        if not body or body[0] in "\"'[{|>" or body in ("-",):
            continue
        m = _re.match(r"^(.*?):( |$)", body)
        if not m:
            continue
        key = m.group(1)
        if key.startswith('"'):
            continue
        why = bare_key_problem(key)
        if why:
            raise Violation("yaml-bare-key", f"{what}: unquoted key {key!a} {why}: {text[:300]!a}")


def yaml_ok_value(v):
    return not any(isinstance(x, str) and x.endswith("\n") for x in V.walk(v))


def check_yaml(case):
    v = case["value"]
    if not yaml_ok_value(v) or not all(yaml_ok_value(x) for x in case["stream"]):
        return {"labels": ["skipped-trailing-newline"]}
    b = lambda x: "true" if x else "false"
    stream = {"a": case["stream"]}
    r1 = call_value(v, [
        f"function(v) std.manifestYamlDoc(v, {b(case['iaio'])}, {b(case['quote_keys'])})",
        f"function(v) std.parseYaml(std.manifestYamlDoc(v, {b(case['iaio'])}, {b(case['quote_keys'])}))",
    ])
    text = expect_text(r1[0], "manifestYamlDoc", v)
    if "ok" not in r1[1]:
        raise Violation("yaml-unreadable", f"parseYaml rejects manifestYamlDoc output for {V.show(v)}: "
                        f"{r1[1].get('err')} text={text[:300]!a}")
    if not case["quote_keys"]:
        check_bare_keys(text, f"manifestYamlDoc(quote_keys=false) of {V.show(v)}")
    got = r1[1]["ok"]["typed"]
    if not V.same(got, v, zero_sign=False):
        raise Violation("yaml-roundtrip", f"manifestYamlDoc(iaio={case['iaio']}, quote_keys={case['quote_keys']}): "
                        f"value={V.show(v)} decoded={V.show(got)} text={text[:300]!a}")
    if case["stream"]:
        r2 = call_value(stream, [
            f"function(v) std.manifestYamlStream(v, {b(case['iaio'])}, {b(case['cde'])}, {b(case['quote_keys'])})",
            f"function(v) std.parseYaml(std.manifestYamlStream(v, {b(case['iaio'])}, {b(case['cde'])}, {b(case['quote_keys'])}))",
        ])
        text2 = expect_text(r2[0], "manifestYamlStream", stream)
        if "ok" not in r2[1]:
            raise Violation("yaml-unreadable", f"parseYaml rejects manifestYamlStream output for {V.show(stream)}: "
                            f"{r2[1].get('err')} text={text2[:300]!a}")
        got2 = r2[1]["ok"]["typed"]
        # documents introduced by an explicit `---` are read back as an array of documents
        exp2 = stream
        if not V.same(got2, exp2, zero_sign=False):
            raise Violation("yaml-roundtrip", f"manifestYamlStream: value={V.show(stream)} decoded={V.show(got2)} "
                            f"text={text2[:300]!a}")
    return {"nontrivial": nontrivial_value(v), "labels": [f"iaio={case['iaio']}", f"qk={case['quote_keys']}"],
            "sample": {"value": V.show(v), "iaio": case["iaio"], "quote_keys": case["quote_keys"]}}


CHECKS = [
    Check("json_family", check_json, json_case, quick=200, thorough=12000),
    Check("layered_objects", check_layered, layered_case, quick=200, thorough=4000),
    Check("manifesters_see_only_the_value", check_everywhere, everywhere_case, quick=150, thorough=4000),
    Check("python", check_python, python_case, quick=200, thorough=5000),
    Check("toml", check_toml, toml_case, quick=200, thorough=5000),
    Check("yaml_parseback", check_yaml, yaml_case, quick=200, thorough=8000),
]
