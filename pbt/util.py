"""Helpers shared by the property modules."""
import math
import re

from .core import Violation
from .engine import EngineDied, engine
from .gen import values as V


def _loc_sig(panic):
    loc = panic.get("loc", "")
    loc = re.sub(r"^/repo/", "", loc)
    # file:line without column keeps signatures stable under formatting of the same line
    m = re.match(r"(.*?):(\d+):\d+$", loc)
    return f"panic:{m.group(1)}:{m.group(2)}" if m else f"panic:{loc}"


def panic_violation(panic, what):
    msg = panic.get("msg", "")
    return Violation(_loc_sig(panic), f"panic at {panic.get('loc')}: {msg[:300]} -- on {what}")


def request(req, what=None):
    """One engine request; panics and engine death become Violations."""
    try:
        resp = engine().request(req)
    except EngineDied as e:
        kind = "stack-overflow" if "overflowed its stack" in e.stderr else f"status{e.status}"
        raise Violation(f"engine-died:{kind}", f"engine process died ({kind}) on {what or str(req)[:500]}: {e.stderr[-300:]}")
    if "panic" in resp:
        raise panic_violation(resp["panic"], what or str(req)[:500])
    if "bad_request" in resp:
        raise RuntimeError(f"bad request: {resp}")
    if resp.get("gc_overcounts"):
        # hook H4: a collection saw an object reached through more in-heap handles than exist (a handle traced twice)
        raise Violation("gc-handle-traced-twice", f"a collection counted {resp['gc_overcounts']} object(s) with more in-heap visits than handles "
                                                  f"(some GcTrace implementation visits a handle twice) on {what or str(req)[:500]}")
    return resp


def eval_exprs(exprs, want=("typed",), fuel=3_000_000, **opts):
    """Evaluates each expression on a fresh Program. Returns the list of outcomes.
    A panic or process death is attributed to the individual expression."""
    req = {"op": "evalmany", "exprs": list(exprs), "want": list(want), "fuel": fuel}
    req.update(opts)
    try:
        resp = engine().request(req)
    except EngineDied:
        resp = None
    if resp is None or "panic" in resp:
        # find the culprit
        for e in exprs:
            r = request({"op": "eval", "src": e, "want": list(want), "fuel": fuel, **opts}, what=e)
            del r
        raise Violation("engine-died:batch-only", f"engine died on a batch but not on its members: {str(exprs)[:400]}")
    out = resp["results"]
    for e, r in zip(exprs, out):
        if "panic" in r:
            raise panic_violation(r["panic"], e)
    return out


def eval_one(src, want=("typed",), fuel=3_000_000, **opts):
    req = {"op": "eval", "src": src, "want": list(want), "fuel": fuel}
    req.update(opts)
    return request(req, what=src if isinstance(src, str) else str(src)[:300])


def is_ok(r):
    return "ok" in r


def err_variant(r):
    e = r.get("err")
    if not e:
        return None
    if e.get("fuel"):
        return "FUEL"
    return e.get("variant")


def typed(r):
    return r["ok"]["typed"]


def all_finite(t):
    for x in V.walk(t):
        if V.is_num(x) and not math.isfinite(V.h2f(x["n"])):
            return False
    return True


_STD_FUNCS = None


def std_functions():
    """[(name, arity)] read from the implementation itself."""
    global _STD_FUNCS
    if _STD_FUNCS is None:
        r = eval_one("[[f, std.length(std[f])] for f in std.objectFieldsAll(std) if std.isFunction(std[f])]")
        t = typed(r)
        _STD_FUNCS = [(row["a"][0], int(V.h2f(row["a"][1]["n"]))) for row in t["a"]]
    return _STD_FUNCS
