"""C09 - scoping errors are found before anything runs, and only real ones."""
import copy

from hypothesis import strategies as st

from ..core import Check, Violation
from ..gen import printer as P
from ..gen import programs as G
from .. import util
from .c15 import chooser

PROPERTY = "C09"
RULE = ("fault-free programs from the type-directed generator (shadowing at every binder kind: local groups, parameters and "
        "defaults, comprehension variables, object locals, field-name expressions that see only the enclosing scope, "
        "self/$/super inside functions inside objects) must load; then exactly one fault of a chosen kind is injected at a "
        "chosen node - anywhere, including dead branches, unused locals, default arguments, comprehension clauses, "
        "field-name expressions and object locals: unbound variable (incl. a comprehension variable used in its own "
        "generator, an object local used in a field name / comprehension key), self / $ / super.f / super[e] / e in super "
        "outside any object, repeated local / object local / parameter / static field name (identifier vs string "
        "spelling), positional after named argument, computed or text-block import path. Oracle: an independent scope "
        "walker decides where `self` is legal; the load must fail in the analysis phase with the matching error, name and "
        "byte span (from the printer). Non-trivial = fault at depth >= 2 or in unevaluated code, or fault-free with >= 2 "
        "nested shadowings; distinct by SHA-1 of the case")

FAULTS = ["none", "none", "unbound", "unbound", "unbound", "comp-own-var", "objlocal-in-name", "objlocal-in-compkey", "self", "dollar", "superfield", "superindex",
          "insuper", "dup-local", "dup-objlocal", "dup-param", "dup-field", "dup-field-spelling", "pos-after-named", "computed-import", "textblock-import",
          "dup-comp-locals", "dup-param-shadowing", "dup-local-shadowing", "dup-objlocal-shadowing", "dup-method-param-shadowing"]


def positions(t, in_obj=False, depth=0, out=None, parent=None, key=None):
    """All expression positions as (container, key, in_object, depth)."""
    out = out if out is not None else []
    if not isinstance(t, dict) or "k" not in t:
        return out
    if parent is not None:
        out.append((parent, key, in_obj, depth))
    k = t["k"]

    def sub(node, field, io=in_obj):
        if node.get(field) is not None:
            positions(node[field], io, depth + 1, out, node, field)

    def binds(bs, io):
        for b in bs:
            if b.get("params") is not None:
                for p in b["params"]:
                    sub(p, "default", io)
            sub(b, "value", io)

    def spec(sp, io):
        for s in sp:
            sub(s, "inner" if s["k"] == "for" else "cond", io)

    def inside(ins):
        if ins["k"] == "members":
            for m in ins["members"]:
                if m["k"] == "local":
                    binds([m["bind"]], True)
                elif m["k"] == "assert":
                    sub(m["assert"], "cond", True)
                    sub(m["assert"], "msg", True)
                else:
                    if m["name"]["k"] == "expr":
                        sub(m["name"], "expr", in_obj)
                    if m["k"] == "method":
                        for p in m["params"]:
                            sub(p, "default", True)
                    sub(m, "value", True)
        else:
            binds(ins["locals1"], True)
            binds(ins["locals2"], True)
            sub(ins, "name", in_obj)
            sub(ins, "body", True)
            spec(ins["spec"], in_obj)

    if k in ("paren", "unary", "error", "insuper"):
        sub(t, "e")
    elif k == "array":
        for i in range(len(t["items"])):
            positions(t["items"][i], in_obj, depth + 1, out, t["items"], i)
    elif k == "arraycomp":
        sub(t, "body")
        spec(t["spec"], in_obj)
    elif k in ("field",):
        sub(t, "e")
    elif k == "index":
        sub(t, "e")
        sub(t, "index")
    elif k == "slice":
        for f in ("e", "start", "end", "step"):
            sub(t, f)
    elif k == "superindex":
        sub(t, "index")
    elif k == "call":
        sub(t, "f")
        for a in t["args"]:
            sub(a, "e")
    elif k == "local":
        binds(t["binds"], in_obj)
        sub(t, "body")
    elif k == "if":
        for f in ("cond", "then", "else"):
            sub(t, f)
    elif k == "binary":
        sub(t, "l")
        sub(t, "r")
    elif k == "func":
        for p in t["params"]:
            sub(p, "default")
        sub(t, "body")
    elif k == "assert":
        sub(t["assert"], "cond")
        sub(t["assert"], "msg")
        sub(t, "body")
    elif k == "object":
        inside(t["inside"])
    elif k == "objext":
        sub(t, "e")
        inside(t["inside"])
    return out


def find_nodes(t, pred, out=None):
    out = out if out is not None else []
    if isinstance(t, dict):
        if pred(t):
            out.append(t)
        for v in t.values():
            find_nodes(v, pred, out)
    elif isinstance(t, list):
        for v in t:
            find_nodes(v, pred, out)
    return out


def find_marked(t):
    r = find_nodes(t, lambda n: n.get("_mark"))
    return r[0] if r else None


MARK = {"_mark": True}


def wrap_fault(pos, fault, sel):
    """Builds the faulty construct around an existing sub-expression (used when the program has no suitable construct)."""
    c, k, io, d = pos[sel % len(pos)]
    E = c[k]
    null = {"k": "null"}
    s = lambda v: {"k": "string", "v": v}
    idt = lambda n, **kw: {"k": "ident", "name": n, **kw}
    fld = lambda name, value, vis=":": {"k": "field", "name": name, "plus": False, "vis": vis, "value": value}
    if fault == "comp-own-var":
        c[k] = {"k": "index", "e": {"k": "arraycomp", "body": E, "spec": [{"k": "for", "var": "qq_own", "inner": idt("qq_own", **MARK)}]}, "index": {"k": "number", "text": "0"}}
        return ("UnknownVariable", "qq_own", "node", d + 2)
    if fault == "objlocal-in-compkey":
        c[k] = {"k": "object", "inside": {"k": "comp", "locals1": [{"name": "qq_loc", "params": None, "value": s("zq")}],
                                          "name": {"k": "binary", "op": "Add", "l": s("k"), "r": idt("qq_loc", **MARK)}, "plus": False, "body": E, "locals2": [],
                                          "spec": [{"k": "for", "var": "z9", "inner": {"k": "array", "items": [s("x")]}}]}}
        return ("UnknownVariable", "qq_loc", "node", d + 2)
    if fault == "dup-comp-locals":
        c[k] = {"k": "field", "name": "k", "e": {"k": "object", "inside": {"k": "comp", "locals1": [{"name": "dd", "params": None, "value": null}], "name": s("k"), "plus": False,
                                                                           "body": E, "locals2": [{"name": "dd", "params": None, "value": null}],
                                                                           "spec": [{"k": "for", "var": "z9", "inner": {"k": "array", "items": [s("x")]}}]}}}
        return ("RepeatedLocalName", "dd", None, d + 1)
    if fault == "dup-param":
        c[k] = {"k": "call", "f": {"k": "func", "params": [{"name": "pp", "default": None}, {"name": "pp", "default": null}], "body": E}, "args": [{"name": None, "e": null}], "tailstrict": False}
        return ("RepeatedParamName", "pp", None, d + 1)
    # a repeated name that is *also* bound in an enclosing scope is still a repetition, not shadowing
    if fault == "dup-param-shadowing":
        how = sel % 4
        f = {"k": "func", "params": [{"name": "pp", "default": None}, {"name": "pp", "default": null}], "body": E}
        callf = {"k": "call", "f": f, "args": [{"name": None, "e": null}], "tailstrict": False}
        if how == 0:
            c[k] = {"k": "local", "binds": [{"name": "pp", "params": None, "value": null}], "body": callf}
        elif how == 1:
            c[k] = {"k": "call", "f": {"k": "func", "params": [{"name": "pp", "default": None}], "body": callf}, "args": [{"name": None, "e": null}], "tailstrict": False}
        elif how == 2:
            c[k] = {"k": "index", "e": {"k": "arraycomp", "body": callf, "spec": [{"k": "for", "var": "pp", "inner": {"k": "array", "items": [null]}}]}, "index": {"k": "number", "text": "0"}}
        else:
            c[k] = {"k": "local", "binds": [{"name": "pp", "params": [{"name": "pp", "default": None}, {"name": "pp", "default": null}], "value": E}], "body": null}
        return ("RepeatedParamName", "pp", None, d + 2)
    if fault == "dup-method-param-shadowing":
        c[k] = {"k": "field", "name": "v", "e": {"k": "object", "inside": {"k": "members", "members": [
            {"k": "local", "bind": {"name": "pp", "params": None, "value": null}},
            {"k": "method", "name": {"k": "ident", "name": "m"}, "params": [{"name": "pp", "default": None}, {"name": "pp", "default": null}], "vis": ":", "value": null},
            fld({"k": "ident", "name": "v"}, E)]}}}
        return ("RepeatedParamName", "pp", None, d + 2)
    if fault == "dup-local-shadowing":
        inner = {"k": "local", "binds": [{"name": "dd", "params": None, "value": null}, {"name": "dd", "params": None, "value": null}], "body": E}
        c[k] = {"k": "local", "binds": [{"name": "dd", "params": None, "value": null}], "body": inner} if sel % 2 == 0 else \
            {"k": "call", "f": {"k": "func", "params": [{"name": "dd", "default": null}], "body": inner}, "args": [], "tailstrict": False}
        return ("RepeatedLocalName", "dd", None, d + 2)
    if fault == "dup-objlocal-shadowing":
        c[k] = {"k": "local", "binds": [{"name": "dd", "params": None, "value": null}], "body": {"k": "field", "name": "v", "e": {"k": "object", "inside": {"k": "members", "members": [
            {"k": "local", "bind": {"name": "dd", "params": None, "value": null}}, fld({"k": "ident", "name": "v"}, E),
            {"k": "local", "bind": {"name": "dd", "params": None, "value": null}}]}}}}
        return ("RepeatedLocalName", "dd", None, d + 2)
    if fault == "pos-after-named":
        c[k] = {"k": "call", "f": {"k": "func", "params": [{"name": "pp", "default": None}, {"name": "qq", "default": null}], "body": E},
                "args": [{"name": "pp", "e": null}, {"name": None, "e": {"k": "null", **MARK}}], "tailstrict": False}
        return ("PositionalArgAfterNamed", None, "node", d + 1)
    if fault == "dup-local":
        c[k] = {"k": "local", "binds": [{"name": "dd", "params": None, "value": null}, {"name": "dd", "params": None, "value": null}], "body": E}
        return ("RepeatedLocalName", "dd", None, d + 1)
    if fault == "dup-objlocal":
        c[k] = {"k": "field", "name": "v", "e": {"k": "object", "inside": {"k": "members", "members": [
            {"k": "local", "bind": {"name": "dd", "params": None, "value": null}}, fld({"k": "ident", "name": "v"}, E),
            {"k": "local", "bind": {"name": "dd", "params": None, "value": null}}]}}}
        return ("RepeatedLocalName", "dd", None, d + 1)
    if fault in ("dup-field", "dup-field-spelling"):
        second = {"k": "string", "name": "v"} if fault == "dup-field-spelling" else {"k": "ident", "name": "v"}
        c[k] = {"k": "field", "name": "v", "e": {"k": "object", "inside": {"k": "members", "members": [fld({"k": "ident", "name": "v"}, E), fld(second, null, "::")]}}}
        return ("RepeatedFieldName", "v", None, d + 1)
    if fault == "objlocal-in-name":
        c[k] = {"k": "field", "name": "v", "e": {"k": "object", "inside": {"k": "members", "members": [
            {"k": "local", "bind": {"name": "qq_loc", "params": None, "value": s("zq")}}, fld({"k": "ident", "name": "v"}, E),
            fld({"k": "expr", "expr": idt("qq_loc", **MARK)}, null)]}}}
        return ("UnknownVariable", "qq_loc", "node", d + 2)
    return None


def inject(tree, fault, sel):
    """Returns (tree', expected) where expected = (variant, name or None, span rule, depth) or None if not applicable."""
    tree = copy.deepcopy(tree)
    wrapper = {"k": "paren", "e": tree}  # gives the root a parent
    pos = positions(wrapper)
    if fault.endswith("-shadowing"):
        exp = wrap_fault(pos, fault, sel)
        return wrapper["e"], exp
    if sel % 2 == 0 and fault in ("comp-own-var", "objlocal-in-compkey", "dup-comp-locals", "dup-param", "pos-after-named", "dup-local", "dup-objlocal",
                                  "dup-field", "dup-field-spelling", "objlocal-in-name"):
        exp = wrap_fault(pos, fault, sel // 2)
        return wrapper["e"], exp
    new, exp = inject_existing(wrapper, pos, fault, sel)
    if exp is None and new is None:
        wrapper = {"k": "paren", "e": copy.deepcopy(tree)}
        pos = positions(wrapper)
        exp = wrap_fault(pos, fault, sel // 2)
        return (wrapper["e"], exp) if exp else (None, None)
    return new, exp


def inject_existing(wrapper, pos, fault, sel):
    if fault == "unbound":
        c, k, io, d = pos[sel % len(pos)]
        c[k] = {"k": "ident", "name": "zz_unbound", **MARK}
        return wrapper["e"], ("UnknownVariable", "zz_unbound", "node", d)
    if fault in ("self", "dollar", "superfield", "superindex", "insuper"):
        outside = [p for p in pos if not p[2]]
        if not outside:
            return None, None
        c, k, io, d = outside[sel % len(outside)]
        node = {"self": {"k": "self"}, "dollar": {"k": "dollar"}, "superfield": {"k": "superfield", "name": "a"},
                "superindex": {"k": "superindex", "index": {"k": "string", "v": "a"}}, "insuper": {"k": "insuper", "e": {"k": "string", "v": "a"}}}[fault]
        node.update(MARK)
        c[k] = node
        variant = {"self": "SelfOutsideObject", "dollar": "DollarOutsideObject"}.get(fault, "SuperOutsideObject")
        return wrapper["e"], (variant, None, "node" if fault in ("self", "dollar") else ("end5" if fault == "insuper" else "start5"), d)
    if fault == "comp-own-var":
        comps = find_nodes(wrapper, lambda n: n.get("k") == "arraycomp" or (n.get("k") == "comp"))
        if not comps:
            return None, None
        n = comps[sel % len(comps)]
        n["spec"].insert(0, {"k": "for", "var": "qq_own", "inner": {"k": "ident", "name": "qq_own", **MARK}})
        return wrapper["e"], ("UnknownVariable", "qq_own", "node", 2)
    if fault == "objlocal-in-name":
        objs = find_nodes(wrapper, lambda n: n.get("k") == "members")
        if not objs:
            return None, None
        n = objs[sel % len(objs)]
        n["members"].append({"k": "local", "bind": {"name": "qq_loc", "params": None, "value": {"k": "string", "v": "zq"}}})
        n["members"].append({"k": "field", "name": {"k": "expr", "expr": {"k": "ident", "name": "qq_loc", **MARK}}, "plus": False, "vis": ":", "value": {"k": "null"}})
        return wrapper["e"], ("UnknownVariable", "qq_loc", "node", 2)
    if fault == "objlocal-in-compkey":
        comps = find_nodes(wrapper, lambda n: n.get("k") == "comp")
        if not comps:
            return None, None
        n = comps[sel % len(comps)]
        n["locals1"].append({"name": "qq_loc", "params": None, "value": {"k": "string", "v": "zq"}})
        n["name"] = {"k": "binary", "op": "Add", "l": n["name"], "r": {"k": "ident", "name": "qq_loc", **MARK}}
        return wrapper["e"], ("UnknownVariable", "qq_loc", "node", 2)
    if fault == "dup-local":
        ls = find_nodes(wrapper, lambda n: n.get("k") == "local" and "binds" in n)
        if not ls:
            return None, None
        n = ls[sel % len(ls)]
        n["binds"].append({"name": n["binds"][0]["name"], "params": None, "value": {"k": "null"}})
        return wrapper["e"], ("RepeatedLocalName", n["binds"][0]["name"], None, 1)
    if fault == "dup-objlocal":
        objs = find_nodes(wrapper, lambda n: n.get("k") == "members")
        if not objs:
            return None, None
        n = objs[sel % len(objs)]
        n["members"].insert(0, {"k": "local", "bind": {"name": "dd", "params": None, "value": {"k": "null"}}})
        n["members"].append({"k": "local", "bind": {"name": "dd", "params": [{"name": "p", "default": None}], "value": {"k": "null"}}})
        return wrapper["e"], ("RepeatedLocalName", "dd", None, 1)
    if fault == "dup-comp-locals":
        comps = find_nodes(wrapper, lambda n: n.get("k") == "comp")
        if not comps:
            return None, None
        n = comps[sel % len(comps)]
        n["locals1"].append({"name": "dd", "params": None, "value": {"k": "null"}})
        n["locals2"].append({"name": "dd", "params": None, "value": {"k": "null"}})
        return wrapper["e"], ("RepeatedLocalName", "dd", None, 1)
    if fault == "dup-param":
        fs = find_nodes(wrapper, lambda n: n.get("k") == "func" or (isinstance(n.get("params"), list) and "value" in n and n.get("k") in (None, "method")))
        fs = [f for f in fs if f.get("params")]
        if not fs:
            return None, None
        n = fs[sel % len(fs)]
        n["params"].append({"name": n["params"][0]["name"], "default": {"k": "null"}})
        return wrapper["e"], ("RepeatedParamName", n["params"][0]["name"], None, 1)
    if fault in ("dup-field", "dup-field-spelling"):
        objs = [o for o in find_nodes(wrapper, lambda n: n.get("k") == "members") if any(m["k"] == "field" and m["name"]["k"] in ("ident", "string") for m in o["members"])]
        if not objs:
            return None, None
        n = objs[sel % len(objs)]
        first = next(m for m in n["members"] if m["k"] == "field" and m["name"]["k"] in ("ident", "string"))
        name = first["name"]["name"]
        if fault == "dup-field-spelling" or not name.isidentifier() or name in P.KEYWORDS:
            nm = {"k": "string", "name": name}
        else:
            nm = {"k": "ident", "name": name}
        n["members"].append({"k": "field", "name": nm, "plus": False, "vis": "::", "value": {"k": "null"}})
        return wrapper["e"], ("RepeatedFieldName", name, None, 1)
    if fault == "pos-after-named":
        cs = [c for c in find_nodes(wrapper, lambda n: n.get("k") == "call") if any(a.get("name") for a in c["args"])]
        if not cs:
            return None, None
        n = cs[sel % len(cs)]
        n["args"].append({"name": None, "e": {"k": "null", **MARK}})
        return wrapper["e"], ("PositionalArgAfterNamed", None, "node", 1)
    if fault in ("computed-import", "textblock-import"):
        c, k, io, d = pos[sel % len(pos)]
        path = {"k": "binary", "op": "Add", "l": {"k": "string", "v": "a"}, "r": {"k": "string", "v": ".libsonnet"}} if fault == "computed-import" else {"k": "textblock", "v": "a.libsonnet\n"}
        path.update(MARK)
        c[k] = {"k": "paren", "e": {"k": ["import", "importstr", "importbin"][sel % 3], "path": path}}
        return wrapper["e"], ("ComputedImportPath" if fault == "computed-import" else "TextBlockAsImportPath", None, "node", d)
    return wrapper["e"], None


# ---------------------------------------------------------------------------------------------
# dead contexts: the analysis must look into code that can never run, whatever makes it dead (a literal condition, a
# literal short-circuit, an unused binding, an uncalled function, an unselected element, an unused default, a message)
_NULL = {"k": "null"}
_B = lambda v: {"k": "bool", "v": v}
DEAD_PLAIN = [
    lambda E: {"k": "binary", "op": "LogicAnd", "l": _B(False), "r": E},
    lambda E: {"k": "binary", "op": "LogicOr", "l": _B(True), "r": E},
    lambda E: {"k": "if", "cond": _B(False), "then": E, "else": None},
    lambda E: {"k": "if", "cond": _B(True), "then": dict(_NULL), "else": E},
    lambda E: {"k": "if", "cond": {"k": "binary", "op": "Eq", "l": {"k": "number", "text": "1"}, "r": {"k": "number", "text": "2"}}, "then": E, "else": dict(_NULL)},
    lambda E: {"k": "local", "binds": [{"name": "qq_dead", "params": None, "value": E}], "body": dict(_NULL)},
    lambda E: {"k": "local", "binds": [{"name": "qq_dead", "params": [{"name": "qq_p", "default": None}], "value": E}], "body": dict(_NULL)},
    lambda E: {"k": "func", "params": [], "body": E},
    lambda E: {"k": "slice", "e": {"k": "array", "items": [E]}, "start": {"k": "number", "text": "1"}, "end": None, "step": None},
    lambda E: {"k": "call", "f": {"k": "func", "params": [{"name": "qq_p", "default": E}], "body": dict(_NULL)}, "args": [{"name": None, "e": dict(_NULL)}], "tailstrict": False},
    lambda E: {"k": "call", "f": {"k": "func", "params": [{"name": "qq_p", "default": dict(_NULL)}], "body": dict(_NULL)}, "args": [{"name": "qq_p", "e": E}], "tailstrict": False},
    lambda E: {"k": "assert", "assert": {"cond": _B(True), "msg": E}, "body": dict(_NULL)},
    lambda E: {"k": "index", "e": {"k": "array", "items": [dict(_NULL), E]}, "index": {"k": "number", "text": "0"}},
    lambda E: {"k": "arraycomp", "body": E, "spec": [{"k": "for", "var": "qq_v", "inner": {"k": "array", "items": []}}]},
    lambda E: {"k": "arraycomp", "body": dict(_NULL), "spec": [{"k": "for", "var": "qq_v", "inner": {"k": "array", "items": [dict(_NULL)]}}, {"k": "if", "cond": _B(False)}, {"k": "for", "var": "qq_w", "inner": E}]},
    lambda E: {"k": "binary", "op": "LogicAnd", "l": {"k": "unary", "op": "LogicNot", "e": _B(True)}, "r": E},
]
# these put E inside an object (self / $ become legal there): only for faults that do not depend on the object context
DEAD_IN_OBJECT = [
    lambda E: {"k": "object", "inside": {"k": "members", "members": [{"k": "field", "name": {"k": "ident", "name": "qq_h"}, "plus": False, "vis": "::", "value": E}]}},
    lambda E: {"k": "object", "inside": {"k": "members", "members": [{"k": "field", "name": {"k": "expr", "expr": dict(_NULL)}, "plus": False, "vis": ":", "value": E}]}},
    lambda E: {"k": "object", "inside": {"k": "members", "members": [{"k": "local", "bind": {"name": "qq_dead", "params": None, "value": E}}]}},
    lambda E: {"k": "object", "inside": {"k": "comp", "locals1": [], "name": {"k": "string", "v": "k"}, "plus": False, "body": E, "locals2": [],
                                         "spec": [{"k": "for", "var": "qq_v", "inner": {"k": "array", "items": []}}]}},
]
OBJECT_SENSITIVE = {"self", "dollar", "superfield", "superindex", "insuper"}


def add_dead_context(tree, fault, dead):
    """dead = [which wrapper, which position (0 = the whole program)]; returns the tree with one sub-expression moved into dead code."""
    if not dead or dead[0] == 0:
        return tree
    wrappers = DEAD_PLAIN + ([] if fault in OBJECT_SENSITIVE else DEAD_IN_OBJECT)
    w = wrappers[(dead[0] - 1) % len(wrappers)]
    wrapper = {"k": "paren", "e": tree}
    pos = positions(wrapper)
    c, k, _, _ = pos[0] if dead[1] % 3 == 0 else pos[dead[1] % len(pos)]
    if fault == "pos-after-named" and isinstance(c[k], dict) and c[k].get("_mark"):
        return tree  # the offending construct is the argument as a whole, not the expression inside it
    c[k] = w(c[k])
    return wrapper["e"]


@st.composite
def scope_case(draw):
    c = draw(G.programs(max_depth=draw(st.sampled_from([3, 4]))))
    c["fault"] = draw(st.sampled_from(FAULTS))
    c["sel"] = draw(st.integers(0, 10_000))
    c["choices"] = draw(st.lists(st.integers(0, 1000), min_size=6, max_size=20))
    c["dead"] = [draw(st.integers(0, 40)), draw(st.integers(0, 10_000))] if draw(st.booleans()) else [0, 0]
    return c


def strip_marks(t):
    if isinstance(t, dict):
        return {k: strip_marks(v) for k, v in t.items() if k != "_mark"}
    if isinstance(t, list):
        return [strip_marks(x) for x in t]
    return t


def check_scope(case):
    tree, fault = case["tree"], case["fault"]
    dead = case.get("dead") or [0, 0]
    if fault == "none":
        tree = add_dead_context(copy.deepcopy(tree), fault, dead)
        text, _ = P.print_tree(tree, chooser(case["choices"]), "minimal", "normal")
        r = util.request({"op": "eval", "src": text, "want": ["multi"], "fuel": 2_000_000, "max_stack": 2000}, what=text[:400])
        if "err" in r and r["err"].get("phase") in ("lex", "parse", "analyze"):
            raise Violation("fault-free-rejected", f"a correctly scoped program was rejected ({r['err'].get('variant')} {r['err'].get('detail')}): {text[:500]!r}")
        shadow = sum(1 for f in case["features"] if f in ("local", "function", "comprehension", "object-local", "object-comprehension", "default-arg"))
        return {"nontrivial": shadow >= 2, "labels": ["fault-free"] + (["dead-context"] if dead[0] else []), "sample": text[:300]}
    new, exp = inject(tree, fault, case["sel"])
    if exp is None:
        return {"labels": ["not-applicable:" + fault]}
    variant, name, spanrule, depth = exp
    new = add_dead_context(new, fault, dead)
    text, etree = P.print_tree(new, chooser(case["choices"]), "minimal", "normal")
    # loading alone must reject it: the faulty part is usually never evaluated
    r = util.request({"op": "eval", "src": text, "want": ["multi"], "fuel": 500_000, "max_stack": 500,
                      "files": {"a.libsonnet": "1", "a.libsonnet\n": "1"}}, what=text[:400])
    if "err" not in r or r["err"].get("phase") != "analyze":
        got = "a value" if "ok" in r else f"{r['err'].get('phase')}/{r['err'].get('variant')}"
        raise Violation(f"fault-accepted:{fault}", f"injected {fault} (expected {variant}) but loading gave {got}: {text[:500]!r}")
    e = r["err"]
    if e["variant"] != variant:
        raise Violation(f"wrong-static-error:{fault}", f"injected {fault}: expected {variant}, got {e['variant']} {e.get('detail')}: {text[:500]!r}")
    if name is not None and (e.get("detail") or {}).get("name") != name:
        raise Violation(f"wrong-static-error-name:{fault}", f"expected {variant}({name}), got {e.get('detail')}: {text[:500]!r}")
    if spanrule is not None:
        m = find_marked(etree)
        s, t_ = m["span"]
        gs = e["spans"][0][1:]
        want = [s, t_] if spanrule == "node" else ([s, s + 5] if spanrule == "start5" else [t_ - 5, t_])
        if gs != want:
            raise Violation(f"static-error-span:{fault}", f"{variant} reported at bytes {gs}, the offending construct is at {want} in {text[:500]!r}")
    return {"nontrivial": depth >= 2 or bool(dead[0]), "labels": [fault] + (["dead-context"] if dead[0] else []), "sample": text[:300]}


CHECKS = [
    Check("scoping_faults", check_scope, scope_case, quick=800, thorough=25000),
]
