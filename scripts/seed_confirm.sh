#!/bin/bash
# scripts/seed_confirm.sh <Cxx> <A|B|C|D> [check-prop ...]   (SEED_OUT=/tmp/seed/<Cxx>-out3 for the third round)
# Confirms a seeded change in its scratch worktree (/tmp/seed/<Cxx>): applies, builds, runs the repo's test suite,
# runs the demonstration with and without the change; then runs the named checks against it via scripts/mutant.sh.
# Results are appended to /verif/seeded/<Cxx>-<A|B>/confirm.log; nothing is left applied anywhere.
set -u
id="$1"; ab="$2"; shift 2
wt=/tmp/seed/$id; out=${SEED_OUT:-/tmp/seed/$id-out}; dst=/verif/seeded/$id-$ab
mkdir -p "$dst"; log="$dst/confirm.log"; : > "$log"
cp "$out/$ab.patch.diff" "$dst/patch.diff"; cp "$out/$ab.demo.sh" "$dst/demo.sh"; cp "$out/$ab.meta.json" "$dst/agent_meta.json"
cd "$wt" || exit 2
git checkout -q -- . ; git apply "$dst/patch.diff" || { echo "patch does not apply" | tee -a "$log"; exit 2; }
echo "== build with change" >> "$log"
cargo build --offline -p rsjsonnet >> "$log" 2>&1 || { echo "BUILD FAILED" | tee -a "$log"; git checkout -q -- .; exit 2; }
echo "== test suite with change" >> "$log"
cargo test --workspace --no-fail-fast --offline 2>&1 | grep -E "^test result|FAILED|failed" >> "$log"
suite=$(grep -E "^test result" "$log" | awk '{p+=$4; f+=$6} END {print p" passed, "f" failed"}')
echo "suite with change: $suite" | tee -a "$log"
echo "== demo with change" >> "$log"
arg="$wt/target/debug/rsjsonnet"
# the demonstration's header says what $1 is: a built binary (default) or the worktree
head -12 "$dst/demo.sh" | grep -qiE 'worktree.*\((NOT|not) (the|a) binary|not a binary\)|<path of the rsjsonnet worktree>|\$1 = path of the rsjsonnet WORKTREE' && arg="$wt"
bash "$dst/demo.sh" "$arg" >> "$log" 2>&1; d1=$?
# a demonstration that wants the worktree (not the binary) as $1 answers 2 (set-up problem) to a binary path: retry
if [ $d1 -ge 2 ] && [ "$arg" != "$wt" ] && head -30 "$dst/demo.sh" | grep -qi worktree; then arg="$wt"; bash "$dst/demo.sh" "$arg" >> "$log" 2>&1; d1=$?; fi
echo "demo with change: exit $d1" | tee -a "$log"
git checkout -q -- .
cargo build --offline -p rsjsonnet >> "$log" 2>&1
bash "$dst/demo.sh" "$arg" >> "$log" 2>&1; d0=$?
echo "demo without change: exit $d0" | tee -a "$log"
cd /verif
for prop in "$@"; do
  echo "== check $prop against the change" | tee -a "$log"
  ./scripts/mutant_scratch.sh "$dst/patch.diff" "$prop" 2>&1 | tee -a "$log"
done
