"""C10 - recursion depth is bounded by the configured limit and fails gracefully."""
import hashlib

from hypothesis import strategies as st

from ..core import Check, Violation
from ..engine import run_cli
from .. import util
from .c01 import check_cli

PROPERTY = "C10"
RULE = ("recursion shapes (direct / mutual / accumulator recursion, recursion through foldl/foldr/map, chains of dependent "
        "locals / fields / array elements, values of nesting depth d built at run time and then compared, converted to "
        "string, formatted, manifested as JSON/YAML/TOML/Python, pruned, merge-patched, flattened, deep-joined; "
        "self-referential locals, fields and arrays) x depth d x an increasing sweep of limits s. Oracle: outcome is a "
        "value, StackOverflow, InfiniteRecursion or another diagnostic - never a crash or an exhausted step budget for a "
        "self-dependent value; along the sweep the outcomes are StackOverflow* then one stable outcome; d >= 100 s + 1000 "
        "forces StackOverflow for shapes whose frame use grows with d. Non-trivial = the sweep observed both outcomes or "
        "the shape is cyclic; distinct by SHA-1 of the case")

# name -> (template with {d}, grows_with_d, cyclic)
SHAPES = {
    "direct": ("local f(n) = if n == 0 then 0 else 1 + f(n - 1); f({d})", True, False),
    "mutual": ("local f(n) = if n == 0 then 0 else 1 + g(n - 1), g(n) = if n == 0 then 0 else f(n - 1); f({d})", True, False),
    "accumulator": ("local f(n, a) = if n == 0 then a else f(n - 1, a + 1); f({d}, 0)", True, False),
    # `tailstrict` outside a tail position must not make the call frameless
    "tailstrict_in_or": ("local f(n) = n == 0 || f(n - 1) tailstrict; f({d})", True, False),
    "tailstrict_in_and": ("local f(n) = n > 0 && f(n - 1) tailstrict; f({d})", True, False),
    "tailstrict_in_plus": ("local f(n) = if n == 0 then 0 else 1 + f(n - 1) tailstrict; f({d})", True, False),
    "tailstrict_in_array": ("local f(n) = if n == 0 then [] else [f(n - 1) tailstrict][0]; f({d})", True, False),
    "tailstrict_in_arg": ("local id(x) = x, f(n) = if n == 0 then 0 else id(f(n - 1) tailstrict); f({d})", True, False),
    "tailstrict_in_cond": ("local f(n) = if n == 0 then true else if f(n - 1) tailstrict then true else false; f({d})", True, False),
    "tailstrict_in_local": ("local f(n) = if n == 0 then 0 else local r = f(n - 1) tailstrict; r + 1; f({d})", True, False),
    "tailstrict_in_field": ("local f(n) = if n == 0 then {{v: 0}} else {{v: f(n - 1).v}}; f({d}).v", True, False),
    "tailstrict_in_index": ("local f(n) = if n == 0 then [0] else [f(n - 1) tailstrict[0]]; f({d})[0]", True, False),
    "via_foldl": ("std.foldl(function(a, i) a + i, std.range(1, {d}), 0)", False, False),
    "via_foldr": ("std.foldr(function(i, a) a + i, std.range(1, {d}), 0)", False, False),
    "map_chain": ("local f(n) = if n == 0 then [0] else std.map(function(x) x + 1, f(n - 1)); f({d})", True, False),
    "field_chain": ("local o = {{ [std.toString(i)]: if i == 0 then 0 else self[std.toString(i - 1)] + 1 for i in std.range(0, {d}) }}; o[std.toString({d})]", True, False),
    "array_chain": ("local a = std.makeArray({d} + 1, function(i) if i == 0 then 0 else a[i - 1] + 1); a[{d}]", True, False),
    "object_self_chain": ("local f(n) = if n == 0 then {{v: 0}} else {{v: f(n - 1).v + 1}}; f({d}).v", True, False),
    "nested_manifest": ("std.foldl(function(a, i) [a], std.range(1, {d}), [])", True, False),
    "nested_obj_manifest": ("std.foldl(function(a, i) {{x: a}}, std.range(1, {d}), {{}})", True, False),
    "nested_equals": ("local v = std.foldl(function(a, i) [a], std.range(1, {d}), [1]), w = std.foldl(function(a, i) [a], std.range(1, {d}), [1]); v == w", True, False),
    "nested_obj_equals": ("local v = std.foldl(function(a, i) {{x: a}}, std.range(1, {d}), {{}}), w = std.foldl(function(a, i) {{x: a}}, std.range(1, {d}), {{}}); v == w", True, False),
    "nested_compare": ("local v = std.foldl(function(a, i) [a], std.range(1, {d}), [1]), w = std.foldl(function(a, i) [a], std.range(1, {d}), [2]); v < w", True, False),
    "nested_tostring": ("std.length(std.toString(std.foldl(function(a, i) [a], std.range(1, {d}), [])))", True, False),
    "nested_coerce": ("std.length('' + std.foldl(function(a, i) {{x: a}}, std.range(1, {d}), {{}}))", True, False),
    "nested_format": ("std.length('%s' % [std.foldl(function(a, i) [a], std.range(1, {d}), [])])", True, False),
    "nested_yaml": ("std.length(std.manifestYamlDoc(std.foldl(function(a, i) {{x: a}}, std.range(1, {d}), {{}})))", True, False),
    "nested_toml": ("std.length(std.manifestTomlEx({{t: std.foldl(function(a, i) {{x: a}}, std.range(1, {d}), {{y: 1}})}}, ' '))", True, False),
    "nested_python": ("std.length(std.manifestPython(std.foldl(function(a, i) [a], std.range(1, {d}), [])))", True, False),
    "nested_jsonex": ("std.length(std.manifestJsonEx(std.foldl(function(a, i) [a], std.range(1, {d}), []), ' '))", True, False),
    "nested_prune": ("std.length(std.prune(std.foldl(function(a, i) [a, null], std.range(1, {d}), [1])))", False, False),
    "nested_mergepatch": ("std.length(std.mergePatch(std.foldl(function(a, i) {{x: a}}, std.range(1, {d}), {{y: 1}}), std.foldl(function(a, i) {{x: a}}, std.range(1, {d}), {{z: null}})))", False, False),
    "nested_flatten": ("std.length(std.flattenDeepArray(std.foldl(function(a, i) [a, i], std.range(1, {d}), [])))", False, False),
    "nested_deepjoin": ("std.length(std.deepJoin(std.foldl(function(a, i) [a, 'x'], std.range(1, {d}), [])))", False, False),
    "nested_sortkey": ("std.length(std.sort([std.foldl(function(a, i) [a], std.range(1, {d}), [1]), std.foldl(function(a, i) [a], std.range(1, {d}), [0])]))", True, False),
    "thunk_chain_locals": ("LOCALS", True, False),
    # paths that are the only source of frames: thunk chains built iteratively, every builtin that walks or compares nested values
    "super_chain": ("std.foldl(function(o, i) o + {{v: super.v + 1}}, std.range(1, {d}), {{v: 0}}).v", True, False),
    "plus_chain": ("std.foldl(function(o, i) o + {{v+: 1}}, std.range(1, {d}), {{v: 0}}).v", True, False),
    "lazy_acc_chain": ("local a = std.foldl(function(acc, i) [acc[0] + 1], std.range(1, {d}), [0]); a[0]", True, False),
    "lazy_obj_acc_chain": ("local a = std.foldl(function(acc, i) {{v: acc.v + 1}}, std.range(1, {d}), {{v: 0}}); a.v", True, False),
    "nested_notequal": ("local v = std.foldl(function(a, i) [a], std.range(1, {d}), [1]), w = std.foldl(function(a, i) [a], std.range(1, {d}), [2]); v != w", True, False),
    "nested_std_equals": ("local v = std.foldl(function(a, i) [a], std.range(1, {d}), [1]), w = std.foldl(function(a, i) [a], std.range(1, {d}), [1]); std.equals(v, w)", True, False),
    "nested_assertEqual": ("local v = std.foldl(function(a, i) [a], std.range(1, {d}), [1]), w = std.foldl(function(a, i) [a], std.range(1, {d}), [1]); std.assertEqual(v, w)", True, False),
    "nested_compare_builtin": ("local v = std.foldl(function(a, i) [a], std.range(1, {d}), [1]), w = std.foldl(function(a, i) [a], std.range(1, {d}), [2]); std.__compare(v, w)", True, False),
    "nested_ge": ("local v = std.foldl(function(a, i) [a], std.range(1, {d}), [1]), w = std.foldl(function(a, i) [a], std.range(1, {d}), [2]); v >= w", True, False),
    "nested_member": ("local v = std.foldl(function(a, i) [a], std.range(1, {d}), [1]), w = std.foldl(function(a, i) [a], std.range(1, {d}), [1]); std.member([w], v)", True, False),
    "nested_count": ("local v = std.foldl(function(a, i) [a], std.range(1, {d}), [1]), w = std.foldl(function(a, i) [a], std.range(1, {d}), [1]); std.count([w], v)", True, False),
    "nested_find": ("local v = std.foldl(function(a, i) [a], std.range(1, {d}), [1]), w = std.foldl(function(a, i) [a], std.range(1, {d}), [1]); std.find(v, [w])", True, False),
    "nested_setMember": ("local v = std.foldl(function(a, i) [a], std.range(1, {d}), [1]), w = std.foldl(function(a, i) [a], std.range(1, {d}), [1]); std.setMember(v, [w])", True, False),
    "nested_uniq": ("local v = std.foldl(function(a, i) [a], std.range(1, {d}), [1]), w = std.foldl(function(a, i) [a], std.range(1, {d}), [1]); std.length(std.uniq([v, w]))", True, False),
    "nested_set": ("local v = std.foldl(function(a, i) [a], std.range(1, {d}), [1]), w = std.foldl(function(a, i) [a], std.range(1, {d}), [1]); std.length(std.set([v, w]))", True, False),
    "nested_minArray": ("local v = std.foldl(function(a, i) [a], std.range(1, {d}), [1]), w = std.foldl(function(a, i) [a], std.range(1, {d}), [0]); std.length(std.minArray([v, w]))", True, False),
    "nested_setUnion": ("local v = std.foldl(function(a, i) [a], std.range(1, {d}), [1]), w = std.foldl(function(a, i) [a], std.range(1, {d}), [0]); std.length(std.setUnion([v], [w]))", True, False),
    "nested_manifestJson": ("std.length(std.manifestJson(std.foldl(function(a, i) [a], std.range(1, {d}), [])))", True, False),
    "nested_manifestJsonMinified": ("std.length(std.manifestJsonMinified(std.foldl(function(a, i) [a], std.range(1, {d}), [])))", True, False),
    "nested_yamlStream": ("std.length(std.manifestYamlStream([std.foldl(function(a, i) [a], std.range(1, {d}), [])]))", True, False),
    "nested_error_message": ("error std.foldl(function(a, i) [a], std.range(1, {d}), [])", True, False),
    "nested_format_key": ("std.length('%(a)s' % {{a: std.foldl(function(a, i) [a], std.range(1, {d}), [])}})", True, False),
    "nested_obj_tostring": ("std.length(std.toString(std.foldl(function(a, i) {{x: a}}, std.range(1, {d}), {{}})))", True, False),
    "nested_xml": ("std.length(std.manifestXmlJsonml(std.foldl(function(a, i) ['t', a], std.range(1, {d}), ['t'])))", False, False),
    "nested_ini": ("std.length(std.manifestIni({{main: {{a: std.foldl(function(a, i) [a], std.range(1, {d}), [])}}, sections: {{}}}}))", True, False),
    "nested_objectvalues_eq": ("local v = std.foldl(function(a, i) {{x: a}}, std.range(1, {d}), {{}}); std.objectValues(v) == std.objectValues(v)", True, False),
    "nested_trace": ("std.trace(std.toString(std.foldl(function(a, i) [a], std.range(1, {d}), [])), 1)", True, False),
    "nested_assert_msg": ("assert false : std.toString(std.foldl(function(a, i) [a], std.range(1, {d}), [])); 1", True, False),
    "nested_in_array_eq": ("local v = std.foldl(function(a, i) [a], std.range(1, {d}), [1]); [v, v] == [v, v]", True, False),
    "nested_mixed_eq": ("local v = std.foldl(function(a, i) if i % 2 == 0 then [a] else {{x: a}}, std.range(1, {d}), [1]); v == v", True, False),
    "nested_mixed_manifest": ("std.foldl(function(a, i) if i % 2 == 0 then [a] else {{x: a}}, std.range(1, {d}), [1])", True, False),
    "comp_chain": ("local a = [if i == 0 then 0 else a[i - 1] + 1 for i in std.range(0, {d})]; a[{d}]", True, False),
    "mapWithIndex_chain": ("local a = std.mapWithIndex(function(i, x) if i == 0 then 0 else a[i - 1] + 1, std.range(0, {d})); a[{d}]", True, False),
    "map_lazy_chain": ("local a = std.map(function(i) if i == 0 then 0 else a[i - 1] + 1, std.range(0, {d})); a[{d}]", True, False),
    "objcomp_dollar_chain": ("{{ [std.toString(i)]: if i == 0 then 0 else $[std.toString(i - 1)] + 1 for i in std.range(0, {d}) }}[std.toString({d})]", True, False),
    "mapWithKey_chain": ("local o = std.mapWithKey(function(k, v) if v == 0 then 0 else o[std.toString(v - 1)] + 1, {{ [std.toString(i)]: i for i in std.range(0, {d}) }}); o[std.toString({d})]", True, False),
    "default_arg_chain": ("local f(n, acc=if n == 0 then 0 else f(n - 1) + 1) = acc; f({d})", True, False),
    "string_concat_rec": ("local f(n) = if n == 0 then '' else f(n - 1) + 'x'; std.length(f({d}))", True, False),
    "array_concat_rec": ("local f(n) = if n == 0 then [] else f(n - 1) + [n]; std.length(f({d}))", True, False),
    "assert_chain": ("local f(n) = if n == 0 then {{v: 0}} else {{assert f(n - 1).v >= 0, v: n}}; f({d}).v", True, False),
    "objlocal_chain": ("local f(n) = if n == 0 then {{v: 0}} else {{local p = f(n - 1), v: p.v + 1}}; f({d}).v", True, False),
    "func_value_chain": ("local f(n) = if n == 0 then function(x) x else local g = f(n - 1); function(x) g(x) + 1; f({d})(0)", True, False),
    "foldl_lazy_func": ("std.foldl(function(g, i) function(x) g(x) + 1, std.range(1, {d}), function(x) x)(0)", True, False),
    "foldr_strict": ("std.foldr(function(i, a) [a], std.range(1, {d}), [])", True, False),
    "flatten_manifest": ("std.flattenArrays([std.foldl(function(a, i) [a], std.range(1, {d}), [])])", True, False),
    "self_local": ("local x = x; x", False, True),
    "self_local_pair": ("local a = b, b = a; a + {d}", False, True),
    "self_field": ("{{a: self.a}}.a", False, True),
    "self_field_pair": ("{{a: self.b + 1, b: self.a + {d}}}.a", False, True),
    "self_array": ("local x = [x]; x", False, True),
    "self_object_manifest": ("{{a: self}}", False, True),
    "self_array_index": ("local x = [x[0]]; x[0]", False, True),
    "endless_call": ("local f(n) = f(n + 1); f({d})", False, True),
    "endless_mutual": ("local f(n) = g(n), g(n) = f(n + {d}); f(0)", False, True),
    "endless_thunk": ("local f(n) = [f(n + 1)]; f({d})", False, True),
    "endless_tostring": ("local x = {{a: [x]}}; std.toString(x)", False, True),
    "endless_equals": ("local x = [x]; x == x", False, True),
    "endless_dollar": ("{{a: {{b: $.a.b + {d}}}}}.a.b", False, True),
    "endless_super": ("({{a: 1}} + {{a: self.a + super.a}}).a", False, True),
    "endless_default_arg": ("local f(a=b, b=a) = a; f()", False, True),
    "endless_comprehension": ("local a = [x for x in a]; a", False, True),
    "endless_import_like": ("local o = {{f: o.f}}; o.f", False, True),
    # infinitely nested values handed to builtins that walk nested values
    "endless_flattenDeepArray": ("local x = [x]; std.flattenDeepArray(x)", False, True),
    "endless_deepJoin": ("local x = [x, 'a']; std.deepJoin(x)", False, True),
    "endless_prune": ("local x = {{a: x, b: {d}}}; std.prune(x)", False, True),
    "endless_prune_array": ("local x = [x]; std.prune(x)", False, True),
    "endless_mergePatch": ("local x = {{a: x}}; std.mergePatch({{}}, x)", False, True),
    "endless_mergePatch_both": ("local x = {{a: x}}; std.mergePatch(x, x)", False, True),
    "endless_flattenArrays": ("local x = [x]; std.flattenArrays(x)", False, True),
    "endless_sort": ("local x = [x, x]; std.sort(x)", False, True),
    "endless_set": ("local x = [x]; std.set(x)", False, True),
    "endless_join": ("local x = [x]; std.join([], x)", False, True),
    "endless_manifest_ini": ("local x = {{a: x}}; std.manifestIni({{sections: x}})", False, True),
    "endless_manifest_yaml": ("local x = {{a: [x]}}; std.manifestYamlDoc(x)", False, True),
    "endless_manifest_toml": ("local x = {{a: x}}; std.manifestTomlEx(x, ' ')", False, True),
    "endless_manifest_python": ("local x = {{a: [x]}}; std.manifestPython(x)", False, True),
    "endless_manifest_xml": ("local x = ['a', x]; std.manifestXmlJsonml(x)", False, True),
    "endless_format": ("local x = [x]; '%s' % [x]", False, True),
    "endless_equals_obj": ("local x = {{a: x}}; x == x", False, True),
    "endless_compare": ("local x = [x]; x < x", False, True),
    "endless_count": ("local x = [x]; std.count(x, x)", False, True),
    "endless_objectValues": ("local x = {{a: x}}; std.objectValues(x)", False, True),
    "endless_assertEqual": ("local x = [x]; std.assertEqual(x, x)", False, True),
}
NAMES = sorted(SHAPES)
QUADRATIC_OUTPUT = {"nested_toml", "nested_yaml", "nested_jsonex", "nested_python", "nested_manifestJson", "nested_yamlStream", "nested_ini"}
# deep *object* nests are handled in quadratic time by the implementation (performance is not the property): keep them small
SLOW = {"nested_obj_tostring", "nested_objectvalues_eq", "nested_mixed_eq", "nested_mixed_manifest", "lazy_obj_acc_chain", "objcomp_dollar_chain",
        "mapWithKey_chain", "nested_obj_manifest", "nested_obj_equals", "nested_coerce", "nested_mergepatch", "endless_tostring", "self_object_manifest", "field_chain",
        "endless_format", "endless_manifest_ini", "endless_manifest_toml", "endless_manifest_yaml", "endless_manifest_python", "endless_equals_obj",
        "endless_deepJoin", "endless_mergePatch", "endless_mergePatch_both", "endless_prune", "endless_prune_array", "endless_manifest_xml",
        "endless_flattenDeepArray", "endless_objectValues"}
QUADRATIC_BUILD = {"super_chain", "plus_chain"}
LIMITS = [0, 1, 2, 3, 5, 10, 20, 50, 100, 200, 500, 1000, 5000, 50000, 1000000]
DEPTHS = [0, 1, 2, 3, 5, 10, 30, 100, 300, 499, 500, 501, 1000, 3000, 10000, 30000]


def source(name, d):
    tmpl, _, _ = SHAPES[name]
    if tmpl == "LOCALS":
        d = min(d, 3000)
        return "local x0 = 1" + "".join(f", x{i} = x{i - 1} + 1" for i in range(1, d + 1)) + f"; x{d}"
    return tmpl.format(d=d)


@st.composite
def sweep_case(draw):
    name = draw(st.sampled_from(NAMES))
    d = draw(st.sampled_from(DEPTHS))
    ls = sorted(set(draw(st.lists(st.sampled_from(LIMITS), min_size=3, max_size=6))))
    near = draw(st.integers(0, 3))
    return {"shape": name, "d": d, "limits": ls, "near": near, "cli": draw(st.integers(0, 11)) == 0}


def classify(r, src, s):
    if "ok" in r:
        t = r["ok"].get("single")
        return ("value", t if t is None or len(t) < 200 else f"{len(t)} chars:{hashlib.sha1(t.encode()).hexdigest()[:12]}")
    e = r["err"]
    if e.get("fuel"):
        return ("fuel", None)
    return (e["variant"], str(e.get("detail")))


def run_one(src, s, fuel=60_000_000):
    return util.request({"op": "eval", "src": src, "max_stack": s, "want": ["single"], "fuel": fuel}, what=f"-s {s}: {src[:200]}")


def check_sweep(case):
    name, d = case["shape"], case["d"]
    _, grows, cyclic = SHAPES[name]
    if name in QUADRATIC_OUTPUT and d > 2000:
        d = 2000  # indentation makes the output size quadratic in the depth: not the property
    if name in SLOW and d > 3000:
        d = 3000
    if name in QUADRATIC_BUILD and d > 500:
        d = 500  # a chain of d object extensions is built in quadratic time and memory: not the property
    src = source(name, d)
    outcomes = []
    # self-dependent shapes: a limit of 10^6 only adds minutes of frame pushing (and wall-limit inconclusives under load)
    cap = 20000 if name in SLOW else 100000 if cyclic else None
    limits = case["limits"] if cap is None else sorted({min(s, cap) for s in case["limits"]})
    for s in limits:
        r = run_one(src, s, fuel=300_000 + 40 * s) if cyclic else run_one(src, s)
        out = classify(r, src, s)
        outcomes.append((s, out))
    # (i) never an exhausted step budget for a self-dependent value
    for s, (k, _) in outcomes:
        if k == "fuel" and cyclic:
            builtin = name.split("_")[1] if name.startswith("endless_") and name.split("_")[1] in ("flattenDeepArray", "deepJoin", "prune", "mergePatch", "manifest") and (name.split("_")[1] != "manifest" or name == "endless_manifest_xml") else ""
            builtin = "manifestXmlJsonml" if builtin == "manifest" else builtin
            raise Violation("cycle-not-detected" + (":" + builtin if builtin else ""), f"-s {s}: self-dependent value neither reported as infinite recursion nor stopped by the stack limit within the step budget: {src[:200]}")
    # (ii) monotone: StackOverflow* then one stable outcome
    seen_final = None
    for s, out in outcomes:
        if out[0] == "fuel":
            continue
        if out[0] == "StackOverflow":
            if seen_final is not None:
                raise Violation("limit-not-monotone", f"outcome under -s {seen_final[0]} was {seen_final[1][0]} but raising the limit to {s} gives StackOverflow: {src[:200]}")
        else:
            if seen_final is not None and seen_final[1] != out:
                raise Violation("outcome-depends-on-limit", f"outcome changes from {seen_final[1]} (-s {seen_final[0]}) to {out} (-s {s}): {src[:200]}")
            if seen_final is None:
                seen_final = (s, out)
    kinds = {o[0] for _, o in outcomes}
    # (iii) the limit is reached at all
    if grows:
        for s, out in outcomes:
            # the object-extension chains are capped at depth 500 (cost), so they get the tighter - still 20-fold slack - bound
            reach = 20 * s + 200 if name in QUADRATIC_BUILD else 100 * s + 1000
            if d >= reach and out[0] not in ("StackOverflow", "fuel"):
                raise Violation("limit-never-reached", f"depth {d} under -s {s} gave {out[0]} instead of StackOverflow: {src[:200]}")
    # (iv) self-dependent values
    if cyclic:
        for s, out in outcomes:
            if out[0] not in ("InfiniteRecursion", "StackOverflow", "fuel"):
                raise Violation("cycle-wrong-outcome", f"-s {s}: self-dependent value gave {out}: {src[:200]}")
    if case["cli"]:
        s = limits[len(limits) // 2]
        check_cli(["-s", str(s), "-e", src], f"-s {s} {src[:120]}")
    nt = cyclic or ("StackOverflow" in kinds and len(kinds - {"fuel"}) >= 2)
    return {"nontrivial": nt, "labels": [name, "both" if len(kinds - {"fuel"}) >= 2 else next(iter(kinds))],
            "sample": {"shape": name, "d": d, "outcomes": [[s, o[0]] for s, o in outcomes]}}


# threshold is non-decreasing in depth (binary search of the smallest sufficient limit)
@st.composite
def threshold_case(draw):
    name = draw(st.sampled_from([n for n in NAMES if SHAPES[n][1]]))
    d1 = draw(st.sampled_from([1, 2, 5, 10, 30, 100]))
    d2 = d1 + draw(st.sampled_from([1, 2, 10, 50]))
    return {"shape": name, "d1": d1, "d2": d2}


def threshold(name, d):
    src = source(name, d)
    lo, hi = 0, 1
    while run_one(src, hi).get("err", {}).get("variant") == "StackOverflow":
        hi *= 2
        if hi > 1 << 22:
            raise Violation("limit-never-sufficient", f"no limit up to {hi} lets depth {d} finish: {src[:200]}")
    while lo < hi:
        mid = (lo + hi) // 2
        if run_one(src, mid).get("err", {}).get("variant") == "StackOverflow":
            lo = mid + 1
        else:
            hi = mid
    return lo


def check_threshold(case):
    t1 = threshold(case["shape"], case["d1"])
    t2 = threshold(case["shape"], case["d2"])
    if t2 < t1:
        raise Violation("threshold-decreases", f"shape {case['shape']}: depth {case['d1']} needs limit {t1} but the deeper {case['d2']} only {t2}")
    # just below the threshold overflows, at the threshold it does not, and the value is stable above it
    src = source(case["shape"], case["d2"])
    at = classify(run_one(src, t2), src, t2)
    above = classify(run_one(src, t2 + 1000), src, t2 + 1000)
    if at != above:
        raise Violation("outcome-depends-on-limit", f"{src[:200]}: outcome {at} at -s {t2}, {above} at -s {t2 + 1000}")
    if t2 > 0:
        below = classify(run_one(src, t2 - 1), src, t2 - 1)
        if below[0] != "StackOverflow":
            raise Violation("limit-not-monotone", f"{src[:200]}: -s {t2 - 1} gives {below[0]}")
    return {"nontrivial": t2 > t1, "labels": [case["shape"]], "sample": {"shape": case["shape"], "d1": case["d1"], "t1": t1, "d2": case["d2"], "t2": t2}}


def enum_cyclic(tier, worker, nworkers):
    names = [n for n in NAMES if SHAPES[n][2]]
    for i, n in enumerate(names):
        if i % nworkers == worker:
            yield {"shape": n, "d": 7, "limits": [3, 100, 2000] if tier == "quick" else [0, 1, 3, 10, 100, 2000, 20000], "near": 0, "cli": False}
    # every frame-growing shape once at a depth far above a small limit (the limit must be reached) and below a big one
    growing = [n for n in NAMES if SHAPES[n][1]]
    for i, n in enumerate(growing):
        if i % nworkers == worker:
            yield {"shape": n, "d": 3000, "limits": [1, 5, 20, 1000000], "near": 0, "cli": False}


# ---------------------------------------------------------------------------------------------
# self-dependence through files: a cycle of imports, each hop spelled differently (./, ../dir/, absolute), is one value
# depending on itself - "infinite recursion" under any limit that is larger than the cycle
IMPORT_DIRS = [".", "a", "b", "a/sub", "b/x/y"]


@st.composite
def import_cycle_case(draw):
    k = draw(st.integers(1, 4))
    return {"dirs": [draw(st.integers(0, len(IMPORT_DIRS) - 1)) for _ in range(k)], "spell": [draw(st.integers(0, 3)) for _ in range(k + 1)],
            "limit": draw(st.sampled_from([100, 200, 500, 500, 2000])), "kind": draw(st.sampled_from(["field", "field", "array", "plain"]))}


def check_import_cycle(case):
    import os
    import tempfile
    k = len(case["dirs"])
    with tempfile.TemporaryDirectory(prefix="c10-") as root:
        root = os.path.realpath(root)
        for d in IMPORT_DIRS:
            os.makedirs(os.path.join(root, d), exist_ok=True)
        dirs = [IMPORT_DIRS[i] for i in case["dirs"]]
        paths = [os.path.normpath(os.path.join(root, dirs[i], f"f{i}.libsonnet")) for i in range(k)]

        def spelled(from_dir, target, how):
            rel = os.path.relpath(target, from_dir)
            if how == 1:
                return "./" + rel
            if how == 2 and os.path.realpath(from_dir) != root:
                return os.path.join("..", os.path.basename(from_dir), rel)
            if how == 3:
                return target
            return rel

        for i in range(k):
            nxt = paths[(i + 1) % k]
            sp = spelled(os.path.dirname(paths[i]), nxt, case["spell"][i])
            imp = "(import '%s')" % sp
            body = {"field": "{v: %s.v}" % imp, "array": "[%s[0]]" % imp, "plain": imp}[case["kind"]]
            with open(paths[i], "w") as f:
                f.write(body)
        main = os.path.join(root, "main.jsonnet")
        sp0 = spelled(root, paths[0], case["spell"][k])
        with open(main, "w") as f:
            f.write({"field": "(import '%s').v", "array": "(import '%s')[0]", "plain": "import '%s'"}[case["kind"]] % sp0)
        rc, out, err = run_cli(["-s", str(case["limit"]), "main.jsonnet"], cwd=root)
        text = err.decode("utf-8", "replace")
        what = f"import cycle of {k} file(s) in {dirs}, spellings {case['spell']}, kind {case['kind']}, -s {case['limit']}"
        if rc != 1:
            raise Violation("import-cycle-exit", f"exit status {rc} (expected 1) for an {what}: {text[-300:]}")
        if out:
            raise Violation("import-cycle-stdout", f"output written for an {what}")
        if "infinite recursion" not in text:
            raise Violation("import-cycle-not-detected", f"an {what} is not reported as infinite recursion: {text[:300]!r}")
    return {"nontrivial": k >= 2 or any(case["spell"]), "labels": [f"k={k}", case["kind"]], "sample": {"dirs": dirs, "spell": case["spell"], "limit": case["limit"], "kind": case["kind"]}}


# ---------------------------------------------------------------------------------------------
# "raising the limit never changes the outcome": also to the largest values the option accepts
HUGE = [1 << 20, (1 << 31) - 1, 1 << 31, (1 << 32) + 1, 1 << 53, 1 << 62, (1 << 63) - 1, 1 << 63, (1 << 64) - 1]


@st.composite
def huge_case(draw):
    return {"shape": draw(st.sampled_from([n for n in NAMES if not SHAPES[n][2]])), "d": draw(st.sampled_from([0, 1, 3, 10, 40])),
            "limits": sorted(set(draw(st.lists(st.sampled_from(HUGE), min_size=2, max_size=4)))), "cli": draw(st.integers(0, 2)) == 0}


def check_huge(case):
    src = source(case["shape"], case["d"])
    base = classify(run_one(src, 100000), src, 100000)
    if base[0] in ("fuel", "StackOverflow"):
        return {"labels": ["not-applicable"]}
    for s in case["limits"]:
        out = classify(run_one(src, s), src, s)
        if out != base:
            raise Violation("outcome-depends-on-limit", f"outcome {base} under -s 100000 becomes {out} under -s {s}: {src[:200]}")
    if case["cli"]:
        s = case["limits"][-1]
        rc0, out0, err0 = run_cli(["-s", "100000", "-e", src])
        rc1, out1, err1 = run_cli(["-s", str(s), "-e", src])
        if (rc0, out0) != (rc1, out1):
            raise Violation("outcome-depends-on-limit", f"the binary exits {rc0} under -s 100000 and {rc1} under -s {s}: {src[:200]}: {err1.decode('utf-8', 'replace')[-300:]}")
    return {"nontrivial": True, "labels": [case["shape"]], "sample": {"shape": case["shape"], "d": case["d"], "limits": case["limits"]}}


CHECKS = [
    Check("huge_limits", check_huge, huge_case, quick=25, thorough=600),
    Check("every_shape_once", check_sweep, enumerate_fn=enum_cyclic, exhaustive=True),
    Check("limit_sweep", check_sweep, sweep_case, quick=40, thorough=4000),
    Check("threshold_monotone_in_depth", check_threshold, threshold_case, quick=8, thorough=600),
    Check("import_cycles_spelled_differently", check_import_cycle, import_cycle_case, quick=25, thorough=800),
]
