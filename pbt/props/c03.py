"""C03 - garbage collection is invisible to programs and exact about reachability."""
from hypothesis import strategies as st

from ..core import Check, Violation
from ..gen import values as V
from .. import util

PROPERTY = "C03"
RULE = ("(1) generated programs (stdlib-heavy templates whose builtins keep handles in Rust-side state while user code "
        "runs, closures/objects/inheritance creating cyclic garbage, generated values) evaluated under Never / Default / "
        "Every(1) / Every(k) / Seeded collection schedules: identical outcome (text or error + stack trace), no access to "
        "a destroyed object; (2) histories of load/eval/manifest/drop/gc cycles on one long-lived Program: the object "
        "count after cycle 6 equals the count after cycle 2; (3) the real collector driven through a scripted heap "
        "against a reachability model: random op sequences (alloc weak/strong, add/del edge, take/clone/upgrade/downgrade/"
        "drop handle, gc) and exhaustive enumeration of all heaps with N nodes (every edge set, every handle "
        "configuration) followed by every single further op and a second collection. Non-trivial = a collection ran "
        "between two evaluator steps and freed objects / the history has cyclic garbage / the heap has garbage with "
        "edges; distinct by SHA-1 of the case")

JS = V.jsonnet_string

# templates over A (array of numbers), S (array of strings), O (object), N (small number), V (any value)
TEMPLATES = [
    "std.sort({A}, function(x) -x)",
    "std.sort([{{k: x, v: [x]}} for x in {A}], function(o) o.k)",
    "std.set({A} + {A}, function(x) x % 3)",
    "std.foldl(function(acc, x) acc + [x * 2], {A}, [])",
    "std.foldr(function(x, acc) [x] + acc, {A}, [])",
    "std.mapWithKey(function(k, v) [k, v], {O})",
    "{{ [k]: {O}[k] for k in std.objectFields({O}) }}",
    "std.filterMap(function(x) x % 2 == 0, function(x) {{v: x}}, {A})",
    "std.manifestJsonEx({V}, '  ')",
    "std.manifestYamlDoc({V})",
    "std.toString({V})",
    "'%s|%s' % [{V}, {O}]",
    "std.mergePatch({O}, {{a: {{b: null, c: {V}}}}})",
    "std.prune([{V}, null, [], {{}}, {O}])",
    "[x for x in {A} if std.member({A}, x)]",
    "std.join(',', std.map(std.toString, {A}))",
    "std.flattenArrays([[x, [x]] for x in {A}])",
    "local f(n) = if n == 0 then [] else [{{a: f(n - 1)}}]; f({N})",
    "local o = {{a: 1, b: self.a + 1, c: {{d: $.b}}}}; [o, o + {{a: 5}}, o {{b+: 1}}]",
    "local base = {{f(x): x + self.k, k: 1}}; (base + {{k: {N}}}).f(2)",
    "local mk(n) = {{v: n, next: if n == 0 then null else mk(n - 1)}}; mk({N})",
    "std.map(function(x) local y = [x, x]; y[0] + y[1], {A})",
    "std.uniq(std.sort({S}))",
    "std.setUnion(std.set({A}), std.set([x + 1 for x in {A}]))",
    "std.setInter(std.set({A}), std.set([x + 1 for x in {A}]))",
    "std.makeArray({N} + 1, function(i) {{i: i, sq: i * i}})",
    "{O} == std.parseJson(std.manifestJsonMinified({O}))",
    "std.parseJson(std.manifestJsonMinified({V}))",
    "std.parseYaml(std.manifestYamlDoc({O}))",
    "std.objectValues({O}) + std.objectFields({O})",
    "std.assertEqual({V}, {V})",
    "[std.md5(s) for s in {S}]",
    "std.foldl(function(o, k) o + {{[k]: std.length(k)}}, {S}, {{}})",
    "std.minArray({A}, function(x) -x, onEmpty=null)",
    "std.flatMap(function(x) [x, [x]], {A})",
    "std.deepJoin([{S}, [{S}]])",
    "std.reverse({A}) < {A}",
    "local f(x) = error 'E' + x; std.map(f, {S})",
    "{{a: [error 'late'], b: {V}}}.a",
    "std.sort({A} + ['x'])",
    "std.objectRemoveKey({O} + {{zz: 1}}, 'zz')",
    "std.get({O}, 'a', {V})",
    "[[i, j] for i in {A} for j in {A} if i < j]",
    "std.repeat({S}, 3)",
    "std.split(std.join('/', {S}), '/')",
    "std.format('%(a)s', {{a: {V}}})",
    "std.manifestTomlEx({{t: {O}, u: {{v: 1}}}}, ' ')",
    "std.manifestPython({V})",
    "std.count({A}, 1) + std.length(std.find(1, {A}))",
    "std.mapWithIndex(function(i, x) i * x, {A})",
    "std.trace('t', {A})",
]
MODES = [{"mode": "never"}, {"mode": "default"}, {"mode": "every", "n": 1}, {"mode": "every", "n": 2}, {"mode": "every", "n": 3}, {"mode": "every", "n": 5},
         {"mode": "every", "n": 7}, {"mode": "every", "n": 16}, {"mode": "every", "n": 64}]


@st.composite
def program_case(draw):
    nums = draw(st.lists(st.integers(-5, 20), min_size=0, max_size=8))
    strs = draw(st.lists(st.sampled_from(["a", "b", "abc", "", "é", "k1", "zz", "x y"]), max_size=5))
    obj = draw(st.lists(st.tuples(st.sampled_from(["a", "b", "c", "k"]), V.typed_values(max_leaves=4)), max_size=3, unique_by=lambda kv: kv[0]))
    val = draw(V.typed_values(max_leaves=6))
    ts = draw(st.lists(st.integers(0, len(TEMPLATES) - 1), min_size=1, max_size=3))
    seeds = draw(st.lists(st.integers(1, 1 << 30), min_size=2, max_size=2))
    return {"nums": nums, "strs": strs, "obj": [list(kv) for kv in obj], "val": val, "n": draw(st.integers(0, 12)), "templates": ts,
            "seeds": seeds, "one_in": draw(st.sampled_from([2, 5, 20]))}


def build_program(case):
    A = "[" + ", ".join(str(x) for x in case["nums"]) + "]"
    S = "[" + ", ".join(JS(s) for s in case["strs"]) + "]"
    O = V.to_jsonnet({"o": sorted(case["obj"])})
    VV = V.to_jsonnet(case["val"])
    parts = [TEMPLATES[i].format(A="A", S="S", O="O", V="VV", N=case["n"]) for i in case["templates"]]
    return f"local A = {A}, S = {S}, O = {O}, VV = {VV}; [" + ", ".join(parts) + "]"


def outcome_key(r):
    if "ok" in r:
        return ("ok", r["ok"].get("multi"), tuple(map(str, r.get("traces", []))))
    e = r["err"]
    if e.get("fuel"):
        return ("fuel",)
    return ("err", e["variant"], str(e.get("detail")), str(e.get("spans")), str(e.get("stack")), tuple(map(str, r.get("traces", []))))


def check_schedules(case):
    src = build_program(case)
    modes = MODES + [{"mode": "seeded", "seed": s, "one_in": case["one_in"]} for s in case["seeds"]]
    base = None
    freed = 0
    runs = 0
    for m in modes:
        r = util.request({"op": "eval", "src": src, "gc": m, "want": ["multi", "counters"], "fuel": 2_000_000, "max_stack": 200}, what=f"gc={m}: {src[:300]}")
        k = outcome_key(r)
        if k[0] == "fuel":
            return {"labels": ["fuel"]}
        if base is None:
            base = (m, k)
        elif k != base[1]:
            raise Violation("schedule-dependent-outcome", f"outcome differs between gc={base[0]} and gc={m}: {str(base[1])[:300]} vs {str(k)[:300]} for {src[:400]}")
        freed += r.get("gc_freed", 0)
        runs += r.get("gc_runs", 0)
    return {"nontrivial": freed > 0, "labels": ["ok" if base[1][0] == "ok" else "err:" + base[1][1]], "sample": src[:300]}


# core-language programs (closures, inheritance chains, comprehensions, recursion) under the same schedules
from ..gen import printer as _P
from ..gen import programs as _G
from .c15 import chooser as _chooser


@st.composite
def core_program_case(draw):
    c = draw(_G.programs(max_depth=draw(st.sampled_from([3, 4, 5]))))
    c["choices"] = draw(st.lists(st.integers(0, 1000), min_size=6, max_size=20))
    c["seeds"] = draw(st.lists(st.integers(1, 1 << 30), min_size=2, max_size=2))
    return c


def check_core_schedules(case):
    src, _ = _P.print_tree(case["tree"], _chooser(case["choices"]), "minimal", "normal")
    modes = [{"mode": "never"}, {"mode": "every", "n": 1}, {"mode": "every", "n": 2}, {"mode": "every", "n": 3}, {"mode": "every", "n": 7}, {"mode": "default"}] + \
        [{"mode": "seeded", "seed": s, "one_in": 3} for s in case["seeds"]]
    base = None
    freed = 0
    for m in modes:
        r = util.request({"op": "eval", "src": src, "gc": m, "want": ["multi", "counters"], "fuel": 2_000_000, "max_stack": 500}, what=f"gc={m}: {src[:300]}")
        k = outcome_key(r)
        if k[0] == "fuel":
            return {"labels": ["fuel"]}
        if base is None:
            base = (m, k)
        elif k != base[1]:
            raise Violation("schedule-dependent-outcome", f"outcome differs between gc={base[0]} and gc={m}: {str(base[1])[:300]} vs {str(k)[:300]} for {src[:400]}")
        freed += r.get("gc_freed", 0)
    return {"nontrivial": freed > 0, "labels": ["ok" if base[1][0] == "ok" else "err:" + base[1][1]], "sample": src[:300]}


# every standard function (list, arities and parameter types read from the implementation, as in C01) applied to boundary
# values, with a collection after every evaluator step: a builtin that keeps a weak handle across a step shows here
@st.composite
def stdlib_gc_case(draw):
    return {"f": draw(st.integers(0, 10_000)), "args": draw(st.lists(st.integers(0, 10_000), min_size=4, max_size=4)),
            "wrap": draw(st.sampled_from(["plain", "plain", "in-array", "twice", "field"])), "seed": draw(st.integers(1, 1 << 30))}


def check_stdlib_schedules(case):
    from . import c01
    fl = util.std_functions()
    name, arity = fl[case["f"] % len(fl)]
    small = [i for i, p in enumerate(c01.POOL) if p not in c01.BIG and "range(0, 999)" not in p and "makeArray(50" not in p]
    args = [small[a % len(small)] for a in case["args"]]
    if arity <= 4:
        sig = c01.signature(name, arity)
        types = c01.pool_types()
        for i in range(arity):
            if sig[i] is not None:
                cands = [j for j in small if types[j] in sig[i]]
                if cands:
                    args[i] = cands[case["args"][i] % len(cands)]
    call = c01.call_src(name, arity, args)
    if call is None:
        return {"labels": ["skipped-alloc-cap"]}
    src = {"plain": call, "in-array": f"[{call}, {call}]", "twice": f"local v = {call}; [v, v == v]", "field": f"{{a: {call}, b: std.length(std.toString(self.a))}}"}[case["wrap"]]
    base = None
    freed = 0
    for m in [{"mode": "never"}, {"mode": "every", "n": 1}, {"mode": "every", "n": 2}, {"mode": "seeded", "seed": case["seed"], "one_in": 3}]:
        r = util.request({"op": "eval", "src": src, "gc": m, "want": ["multi", "counters"], "fuel": 120_000, "max_stack": 200}, what=f"gc={m}: {src[:300]}")
        k = outcome_key(r)
        if k[0] == "fuel":
            return {"labels": ["fuel"]}
        if base is None:
            base = (m, k)
        elif k != base[1]:
            raise Violation("schedule-dependent-outcome", f"outcome differs between gc={base[0]} and gc={m}: {str(base[1])[:300]} vs {str(k)[:300]} for {src[:400]}")
        freed += r.get("gc_freed", 0)
    return {"nontrivial": freed > 0, "labels": ["ok" if base[1][0] == "ok" else "err:" + base[1][1], case["wrap"]], "sample": src[:300]}


# ---------------------------------------------------------------------------------------------
# (2) steady state

CYCLIC_SOURCES = [
    "local o = {a: 1, b: self.a + 1}; o.b",
    "local f(n) = if n == 0 then 0 else f(n - 1) + 1; f(20)",
    "local a = [b], b = [a, 1]; a[0][1]",
    "{a: {b: $.c}, c: [self.a]}.c[0].b == null",
    "std.foldl(function(acc, x) acc + {[std.toString(x)]: acc}, std.range(1, 8), {})",
    "local mk(n) = {v: n, next: if n == 0 then null else mk(n - 1), me: self}; mk(6).next.me.v",
    "std.sort([{k: i % 3, self_ref: self} for i in std.range(1, 40)], function(o) o.k)[0].k",
    "local o = {f(x): x + self.k, k: 1}; (o + {k: 2}).f(1) + std.length(std.mapWithKey(function(k, v) v, o))",
    "std.manifestJsonEx({a: [1, {b: 2}], c: 'x'}, ' ')",
    "local x = {y: {x: x}}; std.length(std.objectFields(x.y.x.y))",
    "error 'boom ' + std.toString([{a: self} .a == null])",
    "local f = function(g) function(x) g(g)(x); 1",
    "std.parseJson('[1, {\"a\": [2, 3]}]')",
    "[x for x in std.range(1, 30) if std.member([y * 2 for y in std.range(1, 30)], x)]",
    "std.extVar('lib').f(3)",
    # garbage cycles through each kind of heap edge, left pending or evaluated (one line per edge kind and state):
    # array element -> environment -> array
    "local a = [a]; std.length(a)",
    "local a = [a]; std.length(a[0])",
    "local a = [[a, 1]]; a[0][1]",
    # object field / object local / assertion environment -> object
    "std.length({a: self})",
    "{a: self, b: 1}.a.b",
    "{local x = self, a: x, b: 2}.a.b",
    "std.length({local x = self, a: x})",
    "{assert self.a == 1, a: 1, me: self}.me.a",
    "{a: {b: $, c: 1}}.a.b.a.c",
    "std.length({a: {b: $}}.a)",
    # closure environment, default-argument thunks
    "local f = function() f; std.type(f())",
    "local f(x=f) = 1; f()",
    "local f(x=f) = x; std.type(f())",
    "local mk() = local g = function(n) if n == 0 then 0 else g(n - 1); g; mk()(3)",
    "std.foldl(function(g, i) function(x) g(x) + i, [1, 2, 3], function(x) x)(0)",
    # call thunks made by builtins: function and arguments
    "local a = std.map(function(x) x, [a]); std.length(a)",
    "local a = std.map(function(x) x, [a]); std.length(a[0])",
    "local a = std.makeArray(2, function(i) a); std.length(a)",
    "local a = std.makeArray(2, function(i) a); std.length(a[1])",
    "local a = std.mapWithIndex(function(i, x) [i, a], [a]); std.length(a)",
    "local a = std.mapWithIndex(function(i, x) [i, a], [a]); std.length(a[0][1])",
    "local o = std.mapWithKey(function(k, v) o, {k: o}); std.length(o)",
    "local o = std.mapWithKey(function(k, v) o, {k: o}); std.length(o.k)",
    "local a = std.filterMap(function(x) true, function(x) a, [a]); std.length(a)",
    "local a = std.filterMap(function(x) true, function(x) a, [1]); std.length(a[0])",
    "local a = std.flatMap(function(x) [a], [1]); std.length(a[0])",
    # inheritance: super layers, +: fields (pending field-plus thunks), removed keys, comprehension-built objects
    "local o = {a: 1} + {b: super.a, c: o}; o.b",
    "local o = {a: 1} + {b: super.a, c: o}; std.length(o)",
    "local o = {a: [1]} + {a+: [o]}; std.length(o.a)",
    "local o = {a: [1]} + {a+: [o]}; std.length(o)",
    "local o = {a: [1]} + {a+: [o]} + {a+: [2]}; std.length(o.a[1].a)",
    "local o = {a: [1]} + {a+: [o]}; std.length(std.objectValues(o))",
    "local o = {a: [1]} + {a+: [o]} + {a+: [o]}; std.length(std.objectValuesAll(o))",
    "local o = {a: [1]} + {a+: [o]}; std.length(std.mapWithKey(function(k, v) 1, o))",
    "local o = {a: [1]} + {a+: [o]}; std.length(std.objectKeysValues(o))",
    "local o = std.objectRemoveKey({a: o, b: 1}, 'b'); std.length(o)",
    "local o = std.objectRemoveKey({a: o, b: 1}, 'b'); std.length(o.a)",
    "local o = {[k]: o for k in ['a', 'b']}; std.length(o)",
    "local o = {[k]: o for k in ['a', 'b']}; std.length(o.a.b)",
    "local o = {local l = o, [k]: l for k in ['a']}; std.length(o.a)",
    "local base = {f(x): self, k: 1}, o = base + {me: o}; o.f(1).k",
    # a failed evaluation leaves nothing behind either
    "local a = [a, error 'x']; a[1]",
    "local o = {a: o, b: error 'x'}; o.b",
    "local a = std.map(function(x) error 'x', [a]); a[0]",
    "local o = {assert false : 'no', a: o}; o.a",
]


@st.composite
def steady_case(draw):
    return {"srcs": draw(st.lists(st.integers(0, len(CYCLIC_SOURCES) - 1), min_size=1, max_size=4)),
            "gc_mode": draw(st.sampled_from([{"mode": "default"}, {"mode": "never"}, {"mode": "every", "n": 5}, {"mode": "every", "n": 1}])),
            "manifest": draw(st.booleans()), "twice": draw(st.booleans())}


def check_steady(case):
    pool = [CYCLIC_SOURCES[i] for i in case["srcs"]]
    cycle = []
    nloads = 0

    def add_cycle(base_thunk, base_val):
        steps = []
        t, v = base_thunk, base_val
        for i in range(len(pool)):
            steps.append(["load", i])
            steps.append(["eval", t])
            if case["twice"]:
                steps.append(["eval", t])
            if case["manifest"]:
                steps.append(["manifest", v, True])
            t += 1
            v += 2 if case["twice"] else 1
        steps += [["drop_values"], ["drop_thunks"], ["gc"], ["objs"]]
        return steps, t, v

    steps = []
    t = v = 0
    marks = []
    for c in range(6):
        s, t, v = add_cycle(t, v)
        steps += s
        marks.append(len(steps) - 1)
    req = {"op": "session", "pool": pool, "steps": steps, "gc": case["gc_mode"], "fuel": 2_000_000,
           "ext": [{"name": "lib", "kind": "code", "val": "{f(n): if n == 0 then [] else [self.f(n - 1)], me: self}"}]}
    r = util.request(req, what=f"steady-state history over {pool}")
    res = r["results"]
    counts = [res[m]["ok"]["objs"] for m in marks]
    if counts[5] != counts[1]:
        raise Violation("heap-grows", f"object count after each of 6 identical cycles (all handles dropped, gc run): {counts} for sources {pool} with gc={case['gc_mode']}")
    return {"nontrivial": True, "labels": [f"growth-after-warmup={counts[1] - counts[0]}"], "sample": {"sources": pool, "counts": counts}}


def enum_steady(tier, worker, nworkers):
    """Every source alone, under two schedules (deterministic part of the steady-state check)."""
    k = 0
    for i in range(len(CYCLIC_SOURCES)):
        for mode in ({"mode": "never"}, {"mode": "every", "n": 1}):
            for twice in (False, True):
                if k % nworkers == worker:
                    yield {"srcs": [i], "gc_mode": mode, "manifest": False, "twice": twice}
                k += 1


# ---------------------------------------------------------------------------------------------
# (3) scripted heap vs reachability model

OPS = ["alloc_w", "alloc_w", "alloc_s", "edge", "edge", "edge", "edge", "deledge", "take", "clone", "upgrade", "downgrade", "drop", "drop", "drop", "gc", "gc"]


@st.composite
def heap_case(draw):
    n = draw(st.integers(4, 40))
    ops = []
    for _ in range(n):
        ops.append([draw(st.sampled_from(OPS)), draw(st.integers(0, 30)), draw(st.integers(0, 30))])
    return {"ops": ops}


def check_heap(case):
    """Interprets the op list against a model while building the engine script (indices are mapped monotonically)."""
    script = []
    handles = []      # handle index -> node id or None (dropped)
    edges = {}        # node -> list of nodes
    next_id = 0
    gcs = 0
    plan = []         # (op, expected info)

    def live():
        return [i for i, h in enumerate(handles) if h is not None]

    for op, a, b in case["ops"]:
        lv = live()
        if op in ("alloc_w", "alloc_s"):
            script.append(["alloc", op == "alloc_s"])
            handles.append(next_id)
            edges[next_id] = []
            next_id += 1
        elif op == "gc":
            script.append(["gc"])
            gcs += 1
        elif not lv:
            continue
        elif op == "edge":
            s, d = lv[a % len(lv)], lv[b % len(lv)]
            script.append(["edge", s, d])
            edges[handles[s]].append(handles[d])
        elif op == "deledge":
            s = lv[a % len(lv)]
            es = edges[handles[s]]
            if not es:
                continue
            i = b % len(es)
            script.append(["deledge", s, i])
            del es[i]
        elif op == "take":
            s = lv[a % len(lv)]
            es = edges[handles[s]]
            if not es:
                continue
            i = b % len(es)
            script.append(["take", s, i])
            handles.append(es[i])
        elif op in ("clone", "upgrade", "downgrade"):
            s = lv[a % len(lv)]
            script.append([op, s])
            handles.append(handles[s])
        elif op == "drop":
            s = lv[a % len(lv)]
            script.append(["drop", s])
            handles[s] = None
        # model snapshot after this op
        roots = {h for h in handles if h is not None}
        reach = set()
        stack = list(roots)
        while stack:
            x = stack.pop()
            if x not in reach:
                reach.add(x)
                stack.extend(edges[x])
        plan.append((script[-1], set(reach), next_id))
    # final: a collection, then read every live handle
    script.append(["gc"])
    roots = {h for h in handles if h is not None}
    reach = set()
    stack = list(roots)
    while stack:
        x = stack.pop()
        if x not in reach:
            reach.add(x)
            stack.extend(edges[x])
    plan.append((["gc"], set(reach), next_id))
    reads = []
    for i, h in enumerate(handles):
        if h is not None:
            script.append(["id", i])
            script.append(["edges", i])
            reads.append((i, h))
    r = util.request({"op": "gcscript", "ops": script}, what=f"heap script {script}")
    res = r["results"]
    garbage_with_edges = False
    for k, (op, reach, allocated) in enumerate(plan):
        out = res[k]
        if out.get("skip"):
            raise RuntimeError(f"engine skipped op {op} at {k}: model out of sync")
        dropped = set(out["dropped"])
        bad = dropped & reach
        if bad:
            raise Violation("reachable-object-destroyed", f"after op {k} {op}: reachable nodes {sorted(bad)} were destroyed; script {script}")
        if op == ["gc"]:
            unreachable = set(range(allocated)) - reach
            if dropped != unreachable:
                raise Violation("gc-not-exact", f"after collection at op {k}: destroyed {sorted(dropped)}, unreachable {sorted(unreachable)}; script {script}")
            if out["num"] != len(reach):
                raise Violation("gc-count", f"after collection at op {k}: {out['num']} objects tracked, {len(reach)} reachable; script {script}")
            if any(edges[x] for x in unreachable):
                garbage_with_edges = True
    base = len(plan)
    for j, (i, h) in enumerate(reads):
        a, b = res[base + 2 * j], res[base + 2 * j + 1]
        if a.get("id") != h or b.get("edges") != edges[h]:
            raise Violation("handle-content", f"handle {i} should name node {h} with edges {edges[h]}, got {a} {b}; script {script}")
    return {"nontrivial": garbage_with_edges and gcs >= 1, "labels": [f"gcs={min(gcs, 3)}"], "sample": script[:20]}


def enum_heaps(tier, worker, nworkers):
    # quick: all heaps with <= 3 nodes; thorough: 4 nodes as well (partitioned over the workers)
    if worker == 0:
        yield {"n": 1, "maxmul": 2, "part": 0, "parts": 1}
        yield {"n": 2, "maxmul": 2, "part": 0, "parts": 1}
    yield {"n": 3, "maxmul": 1, "part": worker, "parts": nworkers}
    if tier == "thorough":
        yield {"n": 3, "maxmul": 2, "part": worker, "parts": nworkers}
        for sub in range(4):
            yield {"n": 4, "maxmul": 1, "part": worker * 4 + sub, "parts": nworkers * 4}


def check_enum(case):
    from ..engine import engine
    eng = engine()
    old = eng.wall_limit
    eng.wall_limit = 3600
    try:
        r = util.request({"op": "gcenum", **case}, what=f"gcenum {case}")
    finally:
        eng.wall_limit = old
    if "violation" in r:
        v = r["violation"]
        raise Violation("gcenum:" + v["what"].split(":")[0][:40], f"heap shape {v['shape']}: {v['what']}")
    ok = r["ok"]
    return {"nontrivial": ok["nontrivial"] > 0, "labels": [f"n={case['n']}", f"shapes={ok['shapes']}", f"scenarios={ok['scenarios']}"],
            "sample": {"enumeration": case, "shapes": ok["shapes"], "scenarios": ok["scenarios"], "examples": ok["samples"][:2]}}


CHECKS = [
    Check("schedule_invariance", check_schedules, program_case, quick=120, thorough=4000),
    Check("schedule_invariance_core_programs", check_core_schedules, core_program_case, quick=150, thorough=5000),
    Check("schedule_invariance_stdlib_matrix", check_stdlib_schedules, stdlib_gc_case, quick=800, thorough=20000),
    Check("steady_state", check_steady, steady_case, quick=30, thorough=800),
    Check("steady_state_each_source", check_steady, enumerate_fn=enum_steady, exhaustive=True),
    Check("scripted_heap_random", check_heap, heap_case, quick=500, thorough=20000),
    Check("scripted_heap_exhaustive", check_enum, enumerate_fn=enum_heaps, exhaustive=True),
]
