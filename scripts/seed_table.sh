#!/bin/bash
# scripts/seed_table.sh  -- runs every seeded change (seeded/<Cxx>-<A|B>/patch.diff) against its property's quick check on a scratch
# worktree and records the verdict in seeded/<id>/check_result.txt. Extra checks per seed may be listed in seeded/<id>/also.txt.
cd "$(dirname "$0")/.."
export MUT_SLOT=${MUT_SLOT:-1}
for d in seeded/C*-[A-D]; do
  id=$(basename $d); prop=${id%-*}
  : > $d/check_result.txt
  for p in $prop $(cat $d/also.txt 2>/dev/null); do
    out=$(./scripts/mutant_scratch.sh $d/patch.diff $p 2>&1)
    rc=$(echo "$out" | grep -oE "exit=[0-9]+" | tail -1)
    sigs=$(echo "$out" | grep "signature:" | sed 's/.*signature: //' | sort -u | tr '\n' ' ')
    echo "$p $rc signatures: $sigs" >> $d/check_result.txt
    echo "$id vs $p: $rc $sigs"
  done
done
