"""C18 - strings are sequences of Unicode code points in every string function."""
from hypothesis import strategies as st

from ..core import Check, Violation
from ..gen import values as V
from .. import util

PROPERTY = "C18"
RULE = ("strings over a small mixed-width alphabet (ASCII, 2-, 3-, 4-byte characters, combining mark, separators that "
        "overlap each other) so that matches are frequent, plus index/length/limit arguments incl. negative, "
        "fractional, huge; oracle = Python str semantics on code points for length, index, slices, substr, findSubstr, "
        "stringChars, codepoint/char, reverse, map/flatMap, split/splitLimit/splitLimitR, join, strip*, strReplace, "
        "trim, asciiUpper/Lower, startsWith/endsWith/member, repeat, format widths, and the identities join(split)=id. "
        "Non-trivial = a non-ASCII character lies at or before the inspected position; distinct by SHA-1 of the case")

JS = V.jsonnet_string
ALPHA = ["a", "b", "a", "b", ",", "é", "中", "\U0001f600", "́", " ", "A", "z", "ß", "\t", "\n", " ", "\u0085"]
SEPS = ["a", "b", ",", "aa", "ab", "aba", ",,", "é", "\U0001f600", "éa", "aé", "中中", " ", "́",
        # patterns that overlap themselves by two or more characters (a border), ASCII and multi-byte
        "abab", "aabaa", "abcab", "éaéa", "\U0001f600b\U0001f600b", "aaa", "abaab", "中a中a中"]
# every character Unicode (or a host language) may call white space; std.trim removes exactly the listed seven
SPACES = [" ", "\t", "\n", "\f", "\r", "\u0085", "\u00a0", "\u000b", "\u001c", "\u001f", "\u1680", "\u2000", "\u2003", "\u200a", "\u200b", "\u2028", "\u2029", "\u202f", "\u205f", "\u3000",
          "\ufeff", "\u180e", "\u2060"]


def text(max_size=14):
    return st.text(alphabet=st.sampled_from(ALPHA), max_size=max_size)


def ints():
    return st.one_of(st.integers(-3, 16), st.integers(-20, 40), st.sampled_from([2 ** 31, 2 ** 32, 2 ** 53, 10 ** 20, -(2 ** 31)]))


@st.composite
def string_case(draw):
    s = draw(text())
    t = draw(st.one_of(text(4), st.sampled_from(SEPS)))
    sep = draw(st.sampled_from(SEPS))
    if draw(st.booleans()):
        # separator-dense subject: built from the separator and its own prefixes / suffixes, so that occurrences touch and overlap
        frags = [sep, sep, t[:1] or "x"] + [sep[:k] for k in range(1, len(sep))] + [sep[k:] for k in range(1, len(sep))]
        s = "".join(draw(st.lists(st.sampled_from(frags), max_size=8)))[:24]
    i = draw(ints())
    j = draw(ints())
    k = draw(st.integers(1, 4))
    frac = draw(st.sampled_from([0.5, 1.5, -0.5, 2.25]))
    chars = draw(st.text(alphabet=st.sampled_from(ALPHA), max_size=4))
    if draw(st.integers(0, 3)) == 0:
        # white space of every kind around (and inside) the subject
        pad = st.text(alphabet=st.sampled_from(SPACES), max_size=3)
        s = draw(pad) + s[:6] + draw(pad) + s[6:10] + draw(pad)
        chars = draw(st.text(alphabet=st.sampled_from(SPACES + ["a"]), max_size=4))
    parts = draw(st.lists(text(4), max_size=5))
    n = draw(st.integers(0, 6))
    return {"s": s, "t": t, "sep": sep, "i": i, "j": j, "k": k, "frac": frac, "chars": chars, "parts": parts, "n": n}


def T(x):
    """Python value -> typed value."""
    if isinstance(x, bool) or x is None or isinstance(x, str):
        return x
    if isinstance(x, (int, float)):
        return V.num(float(x))
    if isinstance(x, (list, tuple)):
        return {"a": [T(y) for y in x]}
    raise TypeError(x)


ERR = object()


def py_slice(s, a, b, c):
    return s[a:b:c]


def ascii_upper(s):
    return "".join(chr(ord(c) - 32) if "a" <= c <= "z" else c for c in s)


def ascii_lower(s):
    return "".join(chr(ord(c) + 32) if "A" <= c <= "Z" else c for c in s)


def find_all(pat, s):
    if pat == "":
        return []
    return [i for i in range(len(s) - len(pat) + 1) if s[i:i + len(pat)] == pat]


def check_strings(case):
    s, t, sep = case["s"], case["t"], case["sep"]
    i, j, k, frac, chars, parts, n = case["i"], case["j"], case["k"], case["frac"], case["chars"], case["parts"], case["n"]
    L = len(s)
    tests = []  # (expr, expected or ERR or None(=no expectation))

    def add(expr, exp):
        tests.append((expr, exp))

    S = JS(s)
    add(f"std.length({S})", L)
    add(f"{S}[{i}]", s[i] if 0 <= i < L else ERR)
    add(f"{S}[{frac}]", ERR)
    add(f"{S}[{i}:{j}]", py_slice(s, i, j, None))
    add(f"{S}[{i}:]", py_slice(s, i, None, None))
    add(f"{S}[:{j}]", py_slice(s, None, j, None))
    add(f"{S}[{i}:{j}:{k}]", py_slice(s, i, j, k))
    add(f"{S}[::{k}]", py_slice(s, None, None, k))
    add(f"std.slice({S}, {i}, {j}, {k})", py_slice(s, i, j, k))
    add(f"std.slice({S}, null, {j}, null)", py_slice(s, None, j, None))
    add(f"{S}[{i}:{j}:0]", ERR)
    add(f"{S}[{i}:{j}:-1]", ERR)
    add(f"std.substr({S}, {i}, {j})", s[i:i + j] if i >= 0 and j >= 0 else ERR)
    add(f"std.findSubstr({JS(t)}, {S})", find_all(t, s))
    add(f"std.findSubstr({JS(sep)}, {S})", find_all(sep, s))
    add(f"std.stringChars({S})", list(s))
    add(f"std.reverse({S})", list(reversed(s)))
    add(f"std.map(function(c) std.codepoint(c), {S})", [ord(c) for c in s])
    add(f"std.map(function(c) c + c, {S})", [c + c for c in s])
    add(f"std.flatMap(function(c) c + '|', {S})", "".join(c + "|" for c in s))
    add(f"std.mapWithIndex(function(ix, c) [ix, c], std.stringChars({S}))", [[ix, c] for ix, c in enumerate(s)])
    add(f"std.join('', std.map(function(n) std.char(n), std.map(std.codepoint, std.stringChars({S}))))", s)
    add(f"[std.codepoint(c) for c in std.stringChars({S})]", [ord(c) for c in s])
    add(f"std.codepoint({JS(t)})", ord(t) if len(t) == 1 else ERR)
    add(f"std.char({i})", chr(i) if 0 <= i < 0x110000 and not (0xd800 <= i < 0xe000) else ERR)
    add(f"std.split({S}, {JS(sep)})", s.split(sep))
    add(f"std.splitLimit({S}, {JS(sep)}, {n})", s.split(sep, n))
    add(f"std.splitLimitR({S}, {JS(sep)}, {n})", s.rsplit(sep, n))
    add(f"std.splitLimit({S}, {JS(sep)}, -1)", s.split(sep))
    add(f"std.split({S}, '')", ERR)
    add(f"std.join({JS(sep)}, std.split({S}, {JS(sep)}))", s)
    add(f"std.join({JS(sep)}, std.splitLimit({S}, {JS(sep)}, {n}))", s)
    add(f"std.join({JS(sep)}, std.splitLimitR({S}, {JS(sep)}, {n}))", s)
    add(f"std.join({JS(sep)}, {V.to_jsonnet(T(parts))})", sep.join(parts))
    add(f"std.stripChars({S}, {JS(chars)})", s.strip(chars) if chars else s)
    add(f"std.lstripChars({S}, {JS(chars)})", s.lstrip(chars) if chars else s)
    add(f"std.rstripChars({S}, {JS(chars)})", s.rstrip(chars) if chars else s)
    add(f"std.trim({S})", s.strip(" \t\n\f\r\x85\xa0"))
    if t:
        add(f"std.strReplace({S}, {JS(t)}, {JS(sep)})", s.replace(t, sep))
        add(f"std.member({S}, {JS(t)})", t in s)
    add(f"std.strReplace({S}, {JS(sep)}, {JS(t)})", s.replace(sep, t))
    add(f"std.asciiUpper({S})", ascii_upper(s))
    add(f"std.asciiLower({S})", ascii_lower(s))
    add(f"std.startsWith({S}, {JS(t)})", s.startswith(t))
    add(f"std.endsWith({S}, {JS(t)})", s.endswith(t))
    add(f"std.startsWith({S}, {S}[:{abs(i) % (L + 1)}])", True)
    add(f"std.endsWith({S}, {S}[{abs(i) % (L + 1)}:])", True)
    add(f"std.equalsIgnoreCase({S}, {JS(ascii_upper(s))})", True)
    add(f"std.equalsIgnoreCase({S}, {JS(t)})", ascii_lower(s) == ascii_lower(t))
    add(f"std.repeat({JS(t)}, {n})", t * n)
    add(f"std.isEmpty({S})", L == 0)
    add(f"std.length({S} + {JS(t)})", L + len(t))
    w = (abs(j) % 12)
    add(f"'%{w}s' % [{S}]", s.rjust(w))
    add(f"'%-{w}s|' % [{S}]", s.ljust(w) + "|")
    add(f"std.length('%{w}s' % [{S}]) >= {w}", True)
    add(f"std.count(std.stringChars({S}), {JS(t[:1])})", s.count(t[:1]) if t else 0)
    add(f"std.length(std.encodeUTF8({S}))", len(s.encode("utf-8")))
    add(f"std.lines({V.to_jsonnet(T(parts))})", "".join(p + "\n" for p in parts))
    add(f"std.deepJoin([{S}, [{JS(t)}, [{S}]]])", s + t + s)
    add(f"{S} < {JS(t)}", s < t)
    add(f"std.length(std.toString({S}))", L)
    add(f"std.substr({S}, {frac}, 1)", ERR)
    add(f"std.substr({S}, 0, {frac})", ERR if frac != int(frac) else None)
    res = util.eval_exprs([e for e, _ in tests], want=["typed"])
    for (e, exp), r in zip(tests, res):
        if exp is None:
            continue
        if exp is ERR:
            if util.is_ok(r):
                raise Violation("no-error:" + e.split("(")[0][:24], f"{e} must be an error, got {V.show(util.typed(r))}")
            continue
        if not util.is_ok(r):
            raise Violation("error:" + e.split("(")[0][:24], f"{e} failed ({r['err'].get('variant')}: {r['err'].get('detail')}), expected {exp!a}")
        got = util.typed(r)
        if not V.same(got, T(exp), zero_sign=False):
            fn = e.split("(")[0][:24] if e.startswith("std.") else ("format" if "%" in e.split("[")[0] else "index/slice")
            raise Violation("wrong:" + fn, f"{e} = {V.show(got)}, expected {exp!a}")
    nonascii_early = any(ord(c) > 127 for c in s[:max(1, min(L, max(i, 0) + 1))])
    return {"nontrivial": nonascii_early and L >= 2, "labels": ["nonascii" if any(ord(c) > 127 for c in s) else "ascii"],
            "sample": {"s": s, "t": t, "sep": sep, "i": i, "j": j, "k": k}}


CHECKS = [
    Check("string_functions", check_strings, string_case, quick=400, thorough=8000),
]
