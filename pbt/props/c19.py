"""C19 - std.format and % follow printf-style formatting for every directive and value."""
import math
import re
import sys

sys.set_int_max_str_digits(0)

from hypothesis import strategies as st

from ..core import Check, Violation
from ..gen import values as V
from .. import util

PROPERTY = "C19"
RULE = ("directives = any subset/order of flags '#0- +', width (absent, 0-40, large, *), precision (absent, .0-.20, "
        "large, .*), optional (key), optional h/l/L, every conversion; values by conversion (integers, -0, ties, "
        "subnormals, 1e308, multi-byte strings, arrays/objects for %s). Oracle: Python's % digit for digit for "
        "d i u o x X e E f F c s (integer conversions only below 2^53; '#o', precision on %s, -0 excluded as documented), "
        "invariants for everything (field >= width in code points, padding side/char, sign rules, digits after the "
        "point, value within half a unit of the last place; g/G shape and value); malformed strings and argument "
        "mismatches must be errors. Non-trivial = a flag together with a width or precision, a multi-byte string with "
        "a width, or width/precision > 1000; distinct by SHA-1 of the case")

JS = V.jsonnet_string

NUMS = [0.0, -0.0, 1.0, -1.0, 7.0, 42.0, -42.0, 255.0, 256.0, 65535.0, 1e6, 123456789.0, 2.0 ** 31, -(2.0 ** 31), 2.0 ** 53 - 1,
        -(2.0 ** 53) + 1, 0.5, 1.5, 2.5, -0.5, -1.5, 0.125, 0.375, 1e-5, 0.05, 0.15, 0.25, 0.35, 1.005, 9.995, 99.5, 999999.5,
        9.5, 0.95, 0.0095, 1e15, 1e16, 1e17, 1e21, 1e22, 1e23, 1e-7, 5e-324, 2.2250738585072014e-308, 1.7976931348623157e308,
        -1.7976931348623157e308, 1e100, 1e-100, 3.14159265358979, 2.718281828, 1 / 3, 2 / 3, 123.456, 0.1, 0.2, 0.3, 1e-4,
        0.0001234, 99999.95, 999999.95, 0.99999995, 12345.678, 4.9e-324, 1e300, 2.0 ** 53, 2.0 ** 63, 2.0 ** 64, 1e20]
# integers at and around powers of two up to the largest double (every double >= 2^53 is an integer: o/x/X must spell it exactly)
BIG_INTS = sorted({f for k in list(range(52, 72)) + [80, 100, 127, 128, 200, 512, 1000, 1023] for b in [2.0 ** k] for f in (b, math.nextafter(b, 0.0), math.nextafter(b, math.inf))
                   if math.isfinite(f)} | {1e19, 1e20, 1.8446744073709552e19, 9.223372036854776e18, 1e100, 1.7976931348623157e308, 3.0 * 2.0 ** 62, 5.0 * 2.0 ** 61})
DEEP_FRACTIONS = [5e-324, 1.5e-323, 2.0 ** -1074 * 3, 2.0 ** -1073, 2.0 ** -1022, 2.2250738585072009e-308, 2.0 ** -1000, 2.0 ** -800, 2.0 ** -767, 2.0 ** -768, 2.0 ** -769,
                  1e-300, 1.2345678901234567e-250, 2.0 ** -500 + 2.0 ** -552, 2.0 ** -300, 1 + 2.0 ** -52, 0.1, 1e-20, 3.0 * 2.0 ** -1000, 1.7976931348623157e308]
TIES = [k + 0.5 for k in range(-6, 12)] + [k / 8 for k in range(-9, 20)] + [0.25, 0.75, 1.25, 0.125, 0.375, 0.625, 2.125, 1e15 + 0.5, 4503599627370496.5,
        0.05, 0.15, 0.45, 1.45, 2.675, 1.005, 1234.5, 12345.5, 0.0625, 0.03125, 99.5, 999.5, 9999.5, 9.5, -9.5, -99.5, -0.5, -0.25, -0.75]
STRS = ["", "a", "abc", "é", "ééé", "中文", "\U0001f600x", "á", "%", "x y", "tab\t", "ß"]
INT_CONVS = "diuoxX"
FLOAT_CONVS = "eEfF"
G_CONVS = "gG"


@st.composite
def directive(draw):
    conv = draw(st.sampled_from(list("diuoxXeEfFgGcs%") + list("dxefgs")))
    flags = "".join(draw(st.lists(st.sampled_from("#0- +"), max_size=4)))
    w = draw(st.one_of(st.none(), st.none(), st.integers(0, 40), st.sampled_from([1, 2, 5, 8, 10, 100, 1001, 70000]), st.just("*")))
    if conv in "cs":
        p = draw(st.one_of(st.none(), st.none(), st.integers(0, 5), st.just("*")))
    elif conv == "%":
        p = draw(st.one_of(st.none(), st.none(), st.integers(0, 5)))
    else:
        p = draw(st.one_of(st.none(), st.none(), st.integers(0, 20), st.integers(0, 3), st.sampled_from([0, 1, 2, 17, 18, 30, 100, 1001, 1100, 65535, 65536, 70000]),
                           st.just("*")))
    lm = draw(st.sampled_from(["", "", "", "h", "l", "L"]))
    if conv in INT_CONVS or conv in FLOAT_CONVS or conv in G_CONVS:
        val = draw(st.one_of(st.sampled_from(NUMS), st.sampled_from(TIES), V.finite_doubles(), st.integers(-10 ** 6, 10 ** 6).map(float),
                             st.sampled_from(BIG_INTS), st.sampled_from(BIG_INTS).map(lambda f: -f)))
        val = {"n": V.f2h(val)}
    elif conv == "c":
        val = draw(st.one_of(st.sampled_from(["a", "é", "\U0001f600", "中"]), st.sampled_from([65.0, 233.0, 0x1f600, 0x4e2d]).map(lambda x: {"n": V.f2h(x)})))
    elif conv == "s":
        val = draw(st.one_of(st.sampled_from(STRS), V.typed_values(max_leaves=4)))
    else:
        val = None
    if conv in FLOAT_CONVS + G_CONVS and draw(st.integers(0, 7)) == 0:
        # digits far behind the point: the exact binary expansion of a double has up to 1074 fractional digits (767 significant)
        p = draw(st.sampled_from([300, 400, 700, 766, 767, 768, 769, 800, 1000, 1073, 1074, 1075, 1100]))
        val = {"n": V.f2h(draw(st.sampled_from(DEEP_FRACTIONS)) * draw(st.sampled_from([1.0, -1.0])))}
    wv = draw(st.integers(0, 30)) if w == "*" else None
    pv = draw(st.one_of(st.integers(0, 3), st.integers(0, 25))) if p == "*" else None
    return {"flags": flags, "w": w, "p": p, "lm": lm, "conv": conv, "val": val, "wv": wv, "pv": pv}


@st.composite
def format_case(draw):
    ds = draw(st.lists(directive(), min_size=1, max_size=3))
    lits = draw(st.lists(st.sampled_from(["", "", " ", "x", "%%", "a%%b", "é", ": "]), min_size=len(ds) + 1, max_size=len(ds) + 1))
    use_keys = draw(st.integers(0, 5)) == 0
    return {"ds": ds, "lits": lits, "keys": use_keys}


def dtext(d, key=None):
    s = "%"
    if key is not None:
        s += f"({key})"
    s += d["flags"]
    if d["w"] is not None:
        s += str(d["w"])
    if d["p"] is not None:
        s += "." + str(d["p"])
    return s + d["lm"] + d["conv"]


def args_src(d):
    a = []
    if d["w"] == "*":
        a.append(str(d["wv"]))
    if d["p"] == "*":
        a.append(str(d["pv"]))
    if d["conv"] != "%":
        a.append(V.to_jsonnet(d["val"]))
    return a


def py_args(d):
    a = []
    if d["w"] == "*":
        a.append(d["wv"])
    if d["p"] == "*":
        a.append(d["pv"])
    return a


def width_of(d):
    if d["w"] is None:
        return 0
    return d["wv"] if d["w"] == "*" else d["w"]


def prec_of(d):
    if d["p"] is None:
        return None
    return d["pv"] if d["p"] == "*" else d["p"]


def python_expected(d):
    """Expected field by Python's % where the conventions coincide, else None."""
    conv, flags = d["conv"], d["flags"]
    if conv == "%":
        return "%" if not flags and d["w"] is None and d["p"] is None else None
    val = d["val"]
    fmt = "%" + flags + ("" if d["w"] is None else str(d["w"])) + ("" if d["p"] is None else "." + str(d["p"])) + conv
    if conv in INT_CONVS:
        x = V.h2f(val["n"])
        if abs(x) >= 2 ** 53:
            return None
        if conv == "o" and "#" in flags:
            return None
        return fmt % tuple(py_args(d) + [int(x)])
    if conv in FLOAT_CONVS:
        x = V.h2f(val["n"])
        if x == 0:
            x = 0.0
        return fmt % tuple(py_args(d) + [x])
    if conv in G_CONVS:
        return None
    if conv == "c":
        if d["p"] is not None:
            return None
        if isinstance(val, str):
            return fmt % tuple(py_args(d) + [val])
        return fmt % tuple(py_args(d) + [chr(int(V.h2f(val["n"])))])
    if conv == "s":
        if d["p"] is not None or not isinstance(val, str):
            return None
        return fmt % tuple(py_args(d) + [val])
    return None


def check_invariants(d, field, what):
    conv, flags = d["conv"], d["flags"]
    w = width_of(d)
    n = len(field)
    if conv != "%" and n < w:
        raise Violation("field-shorter-than-width", f"{what}: field {field[:60]!a} has {n} characters, width {w}")
    if conv in INT_CONVS + FLOAT_CONVS + G_CONVS:
        x = V.h2f(d["val"]["n"])
        body = field.strip(" ")
        # one leading blank is the sign position of the ' ' flag, not padding
        unsigned = field[1:] if (" " in flags and "+" not in flags and field.startswith(" ")) else field
        if "-" in flags and unsigned != unsigned.lstrip(" ") and w > 0:
            raise Violation("padding-side", f"{what}: '-' flag but field {field[:60]!a} is padded on the left")
        if "-" not in flags and field != field.rstrip(" "):
            raise Violation("padding-side", f"{what}: field {field[:60]!a} is padded on the right without '-'")
        neg = x < 0 and not (conv in INT_CONVS and abs(x) < 1)
        if neg and not body.startswith("-"):
            if not (conv in FLOAT_CONVS + G_CONVS and float(body.replace("0x", "").replace("0X", "") or 0) == 0):
                raise Violation("sign", f"{what}: negative value but field {field[:60]!a} has no '-'")
        if not neg and x >= 0:
            if "+" in flags and not body.startswith("+"):
                raise Violation("sign", f"{what}: '+' flag but field {field[:60]!a} has no '+'")
            if "+" not in flags and " " in flags and not field.startswith(" "):
                raise Violation("sign", f"{what}: ' ' flag but field {field[:60]!a} does not start with a blank")
        if conv in FLOAT_CONVS:
            p = prec_of(d)
            p = 6 if p is None else p
            m = re.fullmatch(r"[-+ ]?0*([0-9]+)(?:\.([0-9]*))?(?:[eE]([-+][0-9]{2,}))?", body)
            if not m:
                raise Violation("float-shape", f"{what}: field {field[:80]!a} is not a printf float")
            frac = m.group(2) or ""
            if len(frac) != p:
                raise Violation("float-precision", f"{what}: {len(frac)} digits after the point, precision {p}: {field[:80]!a}")
            if conv in "eE" and m.group(3) is None:
                raise Violation("float-shape", f"{what}: no exponent in {field[:80]!a}")
            if conv in "fF" and m.group(3) is not None:
                raise Violation("float-shape", f"{what}: exponent in {field[:80]!a}")
            if p <= 300 and len(body) < 1200:
                from fractions import Fraction
                got = Fraction(body.strip("+ ").lower().replace("e+", "e")) if "e" not in body.lower() else Fraction(float(body)) if False else None
                if "e" in body.lower():
                    mant, ex = body.strip("+ ").lower().split("e")
                    got = Fraction(mant) * Fraction(10) ** int(ex)
                    ulp = Fraction(10) ** (int(ex) - p)
                else:
                    got = Fraction(body.strip("+ "))
                    ulp = Fraction(10) ** (-p)
                if abs(got - Fraction(x)) > ulp / 2:
                    raise Violation("float-value", f"{what}: field {field[:80]!a} is more than half a unit in the last place from {x!r}")
        if conv in G_CONVS:
            p = prec_of(d)
            p = 6 if p is None else (1 if p == 0 else p)
            from fractions import Fraction
            try:
                t = body.strip("+ ").lower()
                if "e" in t:
                    mant, ex = t.split("e")
                    got = Fraction(mant) * Fraction(10) ** int(ex)
                else:
                    got = Fraction(t)
            except (ValueError, ZeroDivisionError):
                raise Violation("float-shape", f"{what}: field {field[:80]!a} is not a number")
            if x != 0 and p <= 300:
                rel = abs(got - Fraction(x)) / abs(Fraction(x))
                # upstream's %g keeps P-1 fractional digits for |x| < 1 (absolute, not relative, accuracy there)
                if abs(got - Fraction(x)) > Fraction(10) ** (1 - p) * max(abs(Fraction(x)), 1):
                    raise Violation("g-value", f"{what}: field {field[:80]!a} differs from {x!r} by relative {float(rel):.3g} (> 10^{1 - p})")
            if x == 0 and got != 0:
                raise Violation("g-value", f"{what}: zero printed as {field[:80]!a}")
            e10 = 0
            if got != 0:
                a = abs(got)
                while a >= 10:
                    a /= 10
                    e10 += 1
                while a < 1:
                    a *= 10
                    e10 -= 1
            has_exp = "e" in body.lower()
            if (e10 < -5 or e10 > p) and not has_exp:
                raise Violation("g-shape", f"{what}: exponent {e10} outside [-4, {p}) but no exponent form: {field[:80]!a}")
            if -4 < e10 < p - 1 and has_exp:
                raise Violation("g-shape", f"{what}: exponent {e10} inside [-4, {p}) but exponent form: {field[:80]!a}")
            if (conv == "G") != ("E" in body) and has_exp:
                raise Violation("g-shape", f"{what}: wrong exponent letter case in {field[:80]!a}")
    if conv in INT_CONVS:
        # value: the digits denote trunc(x) - exactly for o/x/X (powers-of-two radices spell any integral double exactly), and as a
        # decimal that reads back as the same double for d/i/u (above 2^53 the shortest round-trip digits are accepted as well)
        x = V.h2f(d["val"]["n"])
        t = int(x)  # truncation toward zero, exact
        m = re.fullmatch(r"([-+ ]?)(0[xX]|0(?=[0-7]))?([0-9a-fA-F]+)", field.strip(" "))
        if not m:
            raise Violation("int-shape", f"{what}: field {field[:80]!a} is not a printf integer")
        digits = m.group(3)
        if len(digits) < 1200:
            try:
                got = int(digits, {"o": 8, "x": 16, "X": 16}.get(conv, 10))
            except ValueError:
                raise Violation("int-shape", f"{what}: field {field[:80]!a} has digits outside the radix")
            if conv in "oxX":
                if got != abs(t):
                    raise Violation("int-value", f"{what}: field {field[:80]!a} denotes {got}, the argument truncates to {abs(t)}")
            elif float(got) != float(abs(t)):
                raise Violation("int-value", f"{what}: field {field[:80]!a} denotes {got}, the argument truncates to {abs(t)}")
    if conv in "xX":
        digits = re.sub(r"^[-+ ]*(0[xX])?", "", field.strip(" "))
        if conv == "x" and digits != digits.lower() or conv == "X" and digits != digits.upper():
            raise Violation("hex-case", f"{what}: wrong digit case in {field[:80]!a}")


def check_format(case):
    ds, lits = case["ds"], case["lits"]
    exprs = []
    for d in ds:
        fmt = dtext(d)
        exprs.append(f"std.format({JS(fmt)}, [{', '.join(args_src(d))}])")
        exprs.append(f"{JS(fmt)} % [{', '.join(args_src(d))}]")
    whole_fmt = lits[0] + "".join(dtext(d) + l for d, l in zip(ds, lits[1:]))
    whole_args = [a for d in ds for a in args_src(d)]
    exprs.append(f"std.format({JS(whole_fmt)}, [{', '.join(whole_args)}])")
    keyed = case["keys"] and all(d["w"] != "*" and d["p"] != "*" for d in ds)
    if keyed:
        kfmt = lits[0] + "".join(dtext(d, key=f"k{i}") + l for i, (d, l) in enumerate(zip(ds, lits[1:])))
        obj = "{" + ", ".join(f"k{i}: {V.to_jsonnet(d['val'])}" for i, d in enumerate(ds) if d["conv"] != "%") + "}"
        exprs.append(f"std.format({JS(kfmt)}, {obj})")
    res = util.eval_exprs(exprs, want=["typed"])
    fields = []
    nt = False
    labels = []
    for i, d in enumerate(ds):
        r1, r2 = res[2 * i], res[2 * i + 1]
        what = exprs[2 * i][:160]
        if util.is_ok(r1) != util.is_ok(r2) or (util.is_ok(r1) and util.typed(r1) != util.typed(r2)):
            raise Violation("format-vs-percent", f"std.format and % disagree on {what}")
        if not util.is_ok(r1):
            # a directive may legitimately fail only for a type/codepoint reason
            conv = d["conv"]
            ok_reason = conv == "c" and not isinstance(d["val"], str)
            if not ok_reason:
                raise Violation(f"format-error:{conv}", f"{what} failed: {r1['err'].get('detail')}")
            fields.append(None)
            continue
        field = util.typed(r1)
        if not isinstance(field, str):
            raise Violation("format-not-string", f"{what} = {field!r}")
        fields.append(field)
        exp = python_expected(d)
        if exp is not None:
            labels.append("py-exact")
            if field != exp:
                raise Violation(f"printf-mismatch:{d['conv']}", f"{what} = {field[:120]!a}, Python's % gives {exp[:120]!a}")
        else:
            labels.append("invariants-only")
        if d["conv"] == "s" and not isinstance(d["val"], str) and d["p"] is None:
            pass
        check_invariants(d, field, what)
        w, p = width_of(d), prec_of(d)
        if (d["flags"] and (d["w"] is not None or d["p"] is not None)) or (w and isinstance(d["val"], str) and any(ord(c) > 127 for c in d["val"])) \
                or w > 1000 or (p or 0) > 1000:
            nt = True
    # whole string = literals + fields (with %% -> %)
    rw = res[2 * len(ds)]
    if all(f is not None for f in fields):
        if not util.is_ok(rw):
            raise Violation("format-whole-error", f"{exprs[2 * len(ds)][:200]} failed although each directive succeeds: {rw['err'].get('detail')}")
        exp_whole = lits[0].replace("%%", "%") + "".join(f + l.replace("%%", "%") for f, l in zip(fields, lits[1:]))
        if util.typed(rw) != exp_whole:
            raise Violation("format-concat", f"{exprs[2 * len(ds)][:200]} = {util.typed(rw)[:120]!a}, expected {exp_whole[:120]!a}")
        if keyed:
            rk = res[-1]
            if not util.is_ok(rk):
                raise Violation("format-keyed-error", f"{exprs[-1][:200]} failed: {rk['err'].get('detail')}")
            if util.typed(rk) != exp_whole:
                raise Violation("format-keyed", f"{exprs[-1][:200]} = {util.typed(rk)[:120]!a}, expected {exp_whole[:120]!a}")
    return {"nontrivial": nt, "labels": labels[:3], "sample": exprs[2 * len(ds)][:200]}


# malformed strings and mismatched arguments must be errors
BAD = [("%", "[1]"), ("%z", "[1]"), ("%(a", "{a: 1}"), ("%(a)", "{a: 1}"), ("%.", "[1]"), ("%.x", "[1]"), ("%5", "[1]"), ("%-", "[1]"),
       ("%d", "[]"), ("%d %d", "[1]"), ("%d", "[1, 2]"), ("%d", "['a']"), ("%x", "['a']"), ("%f", "[null]"), ("%e", "[[1]]"), ("%g", "[{}]"),
       ("%c", "['ab']"), ("%c", "['']"), ("%c", "[-1]"), ("%c", "[1114112]"), ("%c", "[55296]"), ("%*d", "['a', 1]"),
       ("%.*d", "['a', 1]"), ("%*d", "[1]"), ("%(a)d", "{b: 1}"), ("%d", "{a: 1}"), ("%(a)*d", "{a: 1}"), ("%(a).*d", "{a: 1}"),
       ("%o", "[true]"), ("%s %s", "['a']"), ("%s", "['a', 'b']"), ("%99999999999d", "[1]"), ("%.99999999999d", "[1]"), ("%é", "[1]"),
       ("%5é", "[1]"), ("%(é", "{}"), ("%dé%", "[1]")]


@st.composite
def bad_case(draw):
    i = draw(st.integers(0, len(BAD) - 1))
    pre = draw(st.sampled_from(["", "x", "%% ", "%s "]))
    return {"i": i, "pre": pre}


def check_bad(case):
    fmt, args = BAD[case["i"]]
    pre = case["pre"]
    if pre == "%s ":
        args2 = "['q', " + args[1:] if args.startswith("[") and args != "[]" else ("['q']" if args == "[]" else args)
        if not args.startswith("["):
            pre, args2 = "", args
    else:
        args2 = args
    e = f"std.format({JS(pre + fmt)}, {args2})"
    r = util.eval_one(e, want=["typed"])
    if util.is_ok(r):
        raise Violation("bad-format-accepted", f"{e} must be an error, got {util.typed(r)!a}")
    return {"nontrivial": True, "sample": e}


CHECKS = [
    Check("format_directives", check_format, format_case, quick=600, thorough=20000),
    Check("format_errors", check_bad, bad_case, quick=40, thorough=300),
]
