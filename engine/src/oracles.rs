//! In-Rust oracles shared by the cargo-fuzz targets and the `oracle` request (so that a saved crash
//! input can be replayed through the engine without libFuzzer). Every oracle panics on a violation.

use rsjsonnet_lang::arena::Arena;
use rsjsonnet_lang::interner::StrInterner;
use rsjsonnet_lang::lexer::Lexer;
use rsjsonnet_lang::parser::{ParseError, Parser};
use rsjsonnet_lang::span::SpanManager;
use rsjsonnet_lang::token::TokenKind;
use serde_json::{Value as J, json};

use crate::dump::{AstDumper, SpanResolver};

/// Rough syntactic nesting: the recursive-descent parser overflows the native stack on deeply nested
/// input (open known finding D9), which would stop every campaign at once.
pub fn too_deep(data: &[u8]) -> bool {
    let mut depth = 0usize;
    let mut max = 0usize;
    for &b in data {
        match b {
            b'(' | b'[' | b'{' => {
                depth += 1;
                max = max.max(depth);
            }
            b')' | b']' | b'}' => depth = depth.saturating_sub(1),
            _ => {}
        }
    }
    let kw = |k: &[u8]| data.windows(k.len()).filter(|w| w == &k).count();
    max + kw(b"local") + kw(b"if") + kw(b"function") + kw(b"error") + kw(b"assert") + kw(b"import") + kw(b"for")
        + data.iter().filter(|&&b| matches!(b, b'-' | b'!' | b'~' | b'+')).count() / 4
        > 120
}

pub fn lex_tile(data: &[u8]) {
    let arena = Arena::new();
    let ast_arena = Arena::new();
    let interner = StrInterner::new();
    let mut mgr = SpanManager::new();
    let (ctx, _) = mgr.insert_source_context(data.len());
    let all = Lexer::new(&arena, &ast_arena, &interner, &mut mgr, ctx, data).lex_to_eof(true);
    let mut mgr2 = SpanManager::new();
    let (ctx2, _) = mgr2.insert_source_context(data.len());
    let ast_arena2 = Arena::new();
    let filtered = Lexer::new(&arena, &ast_arena2, &interner, &mut mgr2, ctx2, data).lex_to_eof(false);
    match (all, filtered) {
        (Ok(all), Ok(filtered)) => {
            let mut pos = 0usize;
            for (i, t) in all.iter().enumerate() {
                let (_, s, e) = mgr.get_span(t.span);
                assert_eq!(s, pos, "token {i} does not start where the previous one ended");
                assert!(e >= s);
                let is_eof = t.kind == TokenKind::EndOfFile;
                assert!(e > s || is_eof, "empty token {i}");
                assert_eq!(is_eof, i + 1 == all.len(), "end-of-file token position");
                pos = e;
            }
            assert_eq!(pos, data.len(), "tokens do not cover the input");
            let kept: Vec<_> = all
                .iter()
                .filter(|t| !matches!(t.kind, TokenKind::Whitespace | TokenKind::Comment))
                .collect();
            assert_eq!(kept.len(), filtered.len(), "filtering changes the number of tokens");
            for (a, b) in kept.iter().zip(filtered.iter()) {
                assert_eq!(format!("{:?}", a.kind), format!("{:?}", b.kind), "filtering changes a token");
                assert_eq!(mgr.get_span(a.span).1, mgr2.get_span(b.span).1);
                assert_eq!(mgr.get_span(a.span).2, mgr2.get_span(b.span).2);
            }
        }
        (Err(e1), Err(e2)) => {
            assert_eq!(format!("{e1:?}").split('{').next(), format!("{e2:?}").split('{').next());
        }
        (a, b) => panic!("lexing with/without whitespace tokens disagrees: {} vs {}", a.is_ok(), b.is_ok()),
    }
}

fn check_spans(node: &J, parent: (u64, u64), len: u64) {
    match node {
        J::Object(m) => {
            let mut me = parent;
            if let (Some(J::String(_)), Some(J::Array(sp))) = (m.get("k"), m.get("span")) {
                let s = sp[0].as_u64().unwrap();
                let e = sp[1].as_u64().unwrap();
                assert!(s <= e && e <= len, "node span [{s},{e}] outside the input of length {len}");
                assert!(parent.0 <= s && e <= parent.1, "node span [{s},{e}] outside its parent [{},{}]", parent.0, parent.1);
                me = (s, e);
            }
            for (k, v) in m {
                if k != "span" {
                    check_spans(v, me, len);
                }
            }
        }
        J::Array(a) => {
            for v in a {
                check_spans(v, parent, len);
            }
        }
        _ => {}
    }
}

pub fn parse_tree(data: &[u8]) {
    if too_deep(data) {
        return;
    }
    let arena = Arena::new();
    let ast_arena = Arena::new();
    let interner = StrInterner::new();
    let mut mgr = SpanManager::new();
    let (ctx, _) = mgr.insert_source_context(data.len());
    let Ok(tokens) = Lexer::new(&arena, &ast_arena, &interner, &mut mgr, ctx, data).lex_to_eof(false) else {
        return;
    };
    let token_spans: Vec<(usize, usize)> = tokens.iter().map(|t| { let (_, s, e) = mgr.get_span(t.span); (s, e) }).collect();
    match Parser::new(&arena, &ast_arena, &interner, &mut mgr, tokens).parse_root_expr() {
        Ok(expr) => {
            let d = AstDumper { r: SpanResolver { mgr: &mgr } };
            let tree = d.expr(&expr);
            check_spans(&tree, (0, data.len() as u64), data.len() as u64);
        }
        Err(ParseError::Expected { span, expected, .. }) => {
            let (_, s, e) = mgr.get_span(span);
            assert!(token_spans.contains(&(s, e)), "syntax error span [{s},{e}] is not a token span");
            assert!(!expected.is_empty(), "syntax error without expectations");
        }
    }
}

pub fn pipeline(data: &[u8]) {
    if too_deep(data) {
        return;
    }
    let req = json!({"op": "eval", "src": {"hex": crate::dump::hex_encode(data)}, "want": ["multi", "sources"], "fuel": 200_000, "max_stack": 200});
    let r = crate::evalop::op_eval(&req);
    if let Some(ok) = r.get("ok") {
        let text = ok["multi"].as_str().expect("manifested text");
        let _: J = serde_json::from_str(text).unwrap_or_else(|e| panic!("manifested output is not JSON: {e}: {text:?}"));
    } else if let Some(err) = r.get("err") {
        if err.get("fuel").is_some() {
            return;
        }
        let sources = r["sources"].as_array().cloned().unwrap_or_default();
        let check = |sp: &J| {
            if let Some(a) = sp.as_array() {
                let idx = a[0].as_i64().unwrap();
                let (s, e) = (a[1].as_u64().unwrap(), a[2].as_u64().unwrap());
                assert!(idx >= 0 && (idx as usize) < sources.len(), "span names an unknown source");
                let len = sources[idx as usize][1].as_u64().unwrap();
                assert!(s <= e && e <= len, "error span [{s},{e}] outside its file of length {len}");
            }
        };
        if !sources.is_empty() {
            for sp in err["spans"].as_array().into_iter().flatten() {
                check(sp);
            }
            for item in err["stack"].as_array().into_iter().flatten() {
                check(&item["span"]);
            }
        }
    } else {
        panic!("unexpected outcome {r}");
    }
}

fn json_equal(ours: &J, theirs: &J) -> bool {
    match (ours, theirs) {
        (J::Null, J::Null) => true,
        (J::Bool(a), J::Bool(b)) => a == b,
        (J::String(a), J::String(b)) => a == b,
        (J::Object(m), J::Number(n)) => {
            // typed number {"n": hex bits}
            let Some(bits) = m.get("n").and_then(J::as_str).and_then(|h| u64::from_str_radix(h, 16).ok()) else {
                return false;
            };
            let x = f64::from_bits(bits);
            let y = n.as_f64().unwrap_or(f64::NAN);
            x == y || ((x - y).abs() <= y.abs() * 1e-15)
        }
        (J::Object(m), J::Array(b)) => {
            let Some(a) = m.get("a").and_then(J::as_array) else { return false };
            a.len() == b.len() && a.iter().zip(b).all(|(x, y)| json_equal(x, y))
        }
        (J::Object(m), J::Object(b)) => {
            let Some(o) = m.get("o").and_then(J::as_array) else { return false };
            o.len() == b.len() && o.iter().all(|kv| b.get(kv[0].as_str().unwrap_or("")).is_some_and(|v| json_equal(&kv[1], v)))
        }
        _ => false,
    }
}

/// `std.parseJson` / `std.parseYaml` on arbitrary text through an external variable.
pub fn textparsers(data: &[u8]) {
    let Ok(text) = std::str::from_utf8(data) else {
        return;
    };
    if too_deep(data) {
        return;
    }
    for f in ["parseJson", "parseYaml"] {
        let req = json!({"op": "eval", "src": format!("std.{f}(std.extVar('t'))"), "ext": [{"name": "t", "kind": "str", "val": text}],
                         "want": ["typed"], "fuel": 2_000_000});
        let r = crate::evalop::op_eval(&req);
        assert!(r.get("ok").is_some() || r.get("err").is_some(), "unexpected outcome {r}");
        if f == "parseJson" {
            let theirs: Result<J, _> = serde_json::from_str(text);
            match (r.get("ok"), theirs) {
                (Some(ok), Ok(v)) => {
                    assert!(json_equal(&ok["typed"], &v), "std.parseJson and serde_json decode {text:?} differently");
                }
                (Some(_), Err(e)) => {
                    // serde_json rejects lone surrogates and has a recursion limit of 128
                    let msg = e.to_string();
                    assert!(msg.contains("surrogate") || msg.contains("recursion") || msg.contains("number out of range"),
                            "std.parseJson accepts {text:?}, serde_json says {msg}");
                }
                (None, Ok(v)) => {
                    // accepted by serde_json only: duplicate keys, numbers that overflow to infinity, lone surrogate escapes
                    fn has_dup(text: &str, v: &J) -> bool {
                        // serde_json keeps the last duplicate: compare the number of ':' separated keys cheaply
                        fn count_keys(v: &J) -> usize {
                            match v {
                                J::Object(m) => m.len() + m.values().map(count_keys).sum::<usize>(),
                                J::Array(a) => a.iter().map(count_keys).sum(),
                                _ => 0,
                            }
                        }
                        let colons = text.matches(':').count();
                        colons > count_keys(v)
                    }
                    fn has_big(v: &J) -> bool {
                        match v {
                            J::Number(n) => n.as_f64().is_none_or(|x| !x.is_finite()),
                            J::Array(a) => a.iter().any(has_big),
                            J::Object(m) => m.values().any(has_big),
                            _ => false,
                        }
                    }
                    assert!(has_dup(text, &v) || has_big(&v) || text.contains("\\u") || text.contains("e") || text.contains("E"),
                            "std.parseJson rejects {text:?} which serde_json accepts");
                }
                (None, Err(_)) => {}
            }
        }
    }
}

pub fn run(name: &str, data: &[u8]) {
    match name {
        "lex_tile" => lex_tile(data),
        "parse_tree" => parse_tree(data),
        "pipeline" => pipeline(data),
        "textparsers" => textparsers(data),
        other => panic!("unknown oracle {other}"),
    }
}
