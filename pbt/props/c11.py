"""C11 - a program state's answers do not depend on its past requests."""
import json
import re

from hypothesis import strategies as st

from ..core import Check, Violation
from .. import util

PROPERTY = "C11"
RULE = ("operation lists (load / eval / eval the same thunk again / call with positional and named thunks / manifest / gc / "
        "set_max_stack / drop) over a pool of sources that share library values through a lazily evaluated ext-var and a "
        "cached import, with failing requests interleaved (explicit errors inside the shared library, stack overflows under "
        "a small limit followed by the same request under a large limit, type errors, failed object assertions); every "
        "request's outcome on the long-lived Program must equal its outcome when only its own dependency chain is replayed "
        "on a fresh Program (manifested text; error variant + message + spans + stack trace). Non-trivial = a failing "
        "request is followed by a request sharing a thunk with it, a gc sits between dependent requests, or a thunk is "
        "evaluated twice; distinct by SHA-1 of the case")

LIB = """{
  a: 1,
  fail: error 'boom',
  rec(n): if n == 0 then 0 else 1 + self.rec(n - 1),
  big: std.range(1, 50),
  neg: -1,
  obj: { assert self.x > 0 : 'bad x', x: $.neg, y: 2 },
  okobj: { assert self.x > 0 : 'bad x', x: 5 },
  lazy: [self.fail, 1, self.memo],
  memo: std.foldl(function(a, b) a + b, self.big, 0),
  deep: self.rec(40),
  deeper: self.rec(120),
  arr: [self.deep, self.a, self.memo],
  f(x, y=10): x + y + self.a,
  nested: { p: { q: $.deep + 1 } },
  str: std.join(',', std.map(std.toString, self.big)),
  base: { assert self.n > 0 : 'n must be positive', n: 1, m: self.n + 1 },
  patch: { n: -1 },
  goodpatch: { n: 5 },
  mixin: { assert std.length(self.tags) < 3 : 'too many tags', tags+: ['x'] },
  tagged: { tags: ['a'] },
  badmap: std.map(function(x, y) x, [10, 20, 30]),
  badidx: std.mapWithIndex(function(i) i, [1, 2]),
  badkey: std.mapWithKey(function(k) k, { p: 1 }),
  mk: std.makeArray(3, function(i) if i == 1 then error 'mk1' else i + $.a),
  selfobj: { a: 1, b: self.a + 1, n: std.length(self) },
  removed: std.objectRemoveKey(self.selfobj, 'a'),
  comp: [if i == 2 then error 'c2' else i * $.a for i in [1, 2, 3]],
  ocomp: { [k]: if k == 'y' then error 'oy' else $.a for k in ['x', 'y'] },
  keyed: std.sort([3, 1, 2], function(x) if x == 2 then error 'key2' else x),
  condfail: { assert $.fail > 0 : 'unreachable', y: 2 },
  conddeep: { assert $.rec(100) > 0 : 'unreachable', y: 3 },
  condnested: { assert self.inner.z > 0 : 'outer', inner: { assert false : 'inner bad', z: 1 }, y: 4 },
  msgfail: { assert false : $.fail, y: 5 },
  condtype: { assert 1 + 'x' - 1 > 0 : 'unreachable', y: 6 },
  condchild: { assert std.length(self.kids) > 0, kids: [$.condfail.y], y: 7 },
}"""

SOURCES = [
    "std.extVar('lib').a",
    "std.extVar('lib').fail",
    "std.extVar('lib').deep",
    "std.extVar('lib').deeper",
    "std.extVar('lib').arr",
    "std.extVar('lib').lazy",
    "std.extVar('lib').lazy[1]",
    "std.extVar('lib').obj",
    "std.extVar('lib').obj.y",
    "std.extVar('lib').okobj",
    "std.extVar('lib').memo + 1",
    "std.extVar('lib').nested",
    "std.extVar('lib').str",
    "(import 'lib.libsonnet').deep",
    "(import 'lib.libsonnet').deeper + (import 'lib.libsonnet').a",
    "(import 'lib.libsonnet').obj.y",
    "(import 'lib.libsonnet').lazy",
    "local l = import 'lib.libsonnet'; [l.a, l.memo, l.nested.p.q]",
    "local l = import 'lib.libsonnet'; l + { neg: 3 }",
    "local l = std.extVar('lib'); (l + { neg: 7 }).obj",
    "std.extVar('lib').f",
    "function(x, y=2) [x, y, std.extVar('lib').a]",
    "function(x) x.obj",
    "function(n) std.extVar('lib').rec(n)",
    "{ ['fresh_' + std.toString(std.extVar('lib').a)]: 1 }",
    "1 + 'x' - 2",
    "[1, 2, 3][std.extVar('lib').a + 5]",
    "std.extVar('lib')",
    "3",
    "'s'",
    "std.extVar('lib').rec(60)",
    "{ a: std.extVar('lib').deep, b: std.extVar('lib').fail }",
    "{ a: std.extVar('lib').deep, b:: std.extVar('lib').fail }",
    "std.extVar('lib').base",
    "std.extVar('lib').base.m",
    "std.extVar('lib').patch",
    "std.extVar('lib').patch.n",
    "std.extVar('lib').base + std.extVar('lib').patch",
    "(std.extVar('lib').base + std.extVar('lib').patch).m",
    "std.extVar('lib').base + std.extVar('lib').goodpatch",
    "std.extVar('lib').goodpatch",
    "local l = import 'lib.libsonnet'; l.base + l.patch",
    "local l = import 'lib.libsonnet'; [l.base.n, l.patch.n]",
    "local l = import 'lib.libsonnet'; l.tagged + l.mixin",
    "local l = import 'lib.libsonnet'; l.tagged + l.mixin + l.mixin + l.mixin",
    "local l = import 'lib.libsonnet'; [l.tagged, l.mixin.tags]",
    "local l = std.extVar('lib'); std.length((l.tagged + l.mixin).tags)",
    # 47.. thunks made by builtins (call thunks of std.map & co., elements that fail), derived objects and arrays
    "std.extVar('lib').badmap",
    "std.extVar('lib').badmap[1]",
    "function(x) std.extVar('lib').badmap[x]",
    "std.extVar('lib').mk",
    "std.extVar('lib').mk[1]",
    "std.extVar('lib').mk[0] + std.extVar('lib').mk[2]",
    "std.extVar('lib').badidx[0]",
    "std.extVar('lib').badkey",
    "std.extVar('lib').selfobj",
    "std.extVar('lib').selfobj.n",
    "std.objectRemoveKey(std.extVar('lib').selfobj, 'a').n",
    "std.objectRemoveKey(std.extVar('lib').selfobj, 'a').b",
    "std.objectRemoveKey(std.extVar('lib').selfobj, 'a')",
    "std.extVar('lib').removed",
    "std.extVar('lib').removed.n",
    "std.objectRemoveKey(std.extVar('lib').selfobj, 'b')",
    "std.extVar('lib').comp",
    "std.extVar('lib').comp[0]",
    "std.extVar('lib').ocomp",
    "std.extVar('lib').ocomp.x",
    "std.extVar('lib').keyed",
    "std.mergePatch(std.extVar('lib').selfobj, {c: 1})",
    "std.extVar('lib').selfobj + {a: 5}",
    "std.mapWithKey(function(k, v) v, std.extVar('lib').selfobj)",
    "std.extVar('lib').lazy + std.extVar('lib').arr",
    "std.reverse(std.extVar('lib').lazy)[0:2]",
    "std.extVar('lib').lazy[1:]",
    "local l = import 'lib.libsonnet'; [l.mk[0], l.comp[0], l.ocomp.x]",
    "local l = import 'lib.libsonnet'; l.badmap[0]",
    "local l = import 'lib.libsonnet'; std.objectRemoveKey(l.selfobj, 'a').n",
    "local l = import 'lib.libsonnet'; l.selfobj.b",
    # 78.. names computed at run time: whether such a string was ever interned depends on which other sources were loaded before
    "{ a: super['zq' + 'x'] }.a",
    "{ zqx: 1, zqy:: 2, zqw: 3, zqv: 4, zqu: 5, zqt: 6 }",
    "({ b: 1 } + { a: super['zq' + 'y'] }).a",
    "({ zqy: 1 } + { a: super['zq' + 'y'] }).a",
    "{ a: 1 }['zq' + 'w']",
    "('zq' + 'v') in {}",
    "{ a: ('zq' + 'u') in super }.a",
    "std.get({}, 'zq' + 't', 'dflt')",
    "std.objectHasAll({ zqy:: 1 }, 'zq' + 'y')",
    "{ ['zq' + 'x']: 1 }",
    "function(x) x['zq' + 'x']",
    "std.extVar('zq' + 'x')",
    "std.objectHas({}, 'zq' + 'v')",
    "local o = { a: super['zq' + 'x'], zqx: 1 }; [o.zqx, std.objectHas(o, 'zq' + 'x')]",
    # 92.. a request that dies *inside* an assertion (condition or message fails, overflows, or reads an object whose own assertion fails)
    "std.extVar('lib').condfail.y",
    "std.extVar('lib').condfail",
    "std.extVar('lib').conddeep.y",
    "std.extVar('lib').condnested.y",
    "std.extVar('lib').condnested",
    "std.extVar('lib').msgfail.y",
    "std.extVar('lib').condtype.y",
    "std.extVar('lib').condchild.y",
    "local l = import 'lib.libsonnet'; [l.condfail.y]",
    "local l = import 'lib.libsonnet'; l.condnested.inner.z",
    "local l = import 'lib.libsonnet'; l.conddeep.y + l.msgfail.y",
    "(std.extVar('lib').condfail + { z: 1 }).z",
    # 104.. run-time names on objects whose assertion fails: which error is reported must not depend on what was interned before
    "{ assert false : 'bad', a: 1 }['zq' + 'x']",
    "std.extVar('lib').obj['zq' + 'y']",
    "{ assert self.a > 1 : 'small', a: 1 }['zq' + 'w']",
    "std.extVar('lib').condfail['zq' + 'v']",
    "local o = { assert false : 'bad', zqu: 1 }; o['zq' + 'u']",
    "std.get({ assert false : 'bad' }, 'zq' + 't', 0)",
    "std.objectHas({ assert false : 'bad' }, 'zq' + 'x')",
    "{ assert false : 'bad' } + { ['zq' + 'x']: 1 }",
]
FUNCS = {20, 21, 22, 23, 49, 88}
STACKS = [5, 20, 45, 60, 130, 500]
OPS = ["load", "load", "eval", "eval", "eval_again", "call", "manifest", "manifest", "gc", "stack", "drop"]


# related sources are used together: a history draws from one or two themes, so that requests really share thunks
THEMES = [
    [33, 34, 35, 36, 37, 38, 39, 40, 41, 42],          # base / patch / base + patch (assertions of combined objects)
    [43, 44, 45, 46],                                   # tagged + mixin
    [1, 5, 6, 31, 32, 0, 10],                           # explicit error inside the shared library
    [2, 3, 4, 13, 14, 23, 30, 11],                      # deep recursion and stack limits
    [7, 8, 9, 15, 19, 22],                              # object with a failing assertion
    [20, 21, 22, 23, 27, 28, 29],                       # functions and calls
    [16, 17, 18, 24, 25, 26, 12],                       # imports, fresh field names, type errors
    [47, 48, 49, 53, 54, 75, 28, 0],                    # call thunks made by std.map & co. whose parameter check fails
    [50, 51, 52, 63, 64, 65, 66, 67, 74],               # arrays / objects built by builtins and comprehensions with failing elements
    [55, 56, 57, 58, 59, 60, 61, 62, 68, 69, 70, 76, 77],   # objects derived from a shared self-referential object
    [71, 72, 73, 5, 6, 4],                              # arrays derived from shared arrays (elements are shared thunks)
    [78, 79, 80, 81, 82, 83, 84, 85, 86, 87, 88, 89, 90, 91],   # run-time names vs names interned by other sources
    [92, 93, 94, 95, 96, 97, 98, 99, 100, 101, 102, 103, 1, 2],  # requests that die inside an assertion
    [104, 105, 106, 107, 108, 109, 110, 111, 79, 78, 7],          # run-time names on objects whose assertion fails
    list(range(len(SOURCES))),
]


@st.composite
def history_case(draw):
    n = draw(st.integers(2, 14))
    ops = [[draw(st.sampled_from(OPS)), draw(st.integers(0, 100)), draw(st.integers(0, 100)), draw(st.integers(0, 100))] for _ in range(n)]
    return {"ops": ops, "themes": draw(st.lists(st.integers(0, len(THEMES) - 1), min_size=1, max_size=2))}


def norm_json(x):
    return re.sub(r"src(\d+)_\d+", r"src\1", json.dumps(x, sort_keys=True))


def norm_outcome(r, sources):
    def span(sp):
        if not sp:
            return None
        idx, s, e = sp
        name = sources[idx][0] if 0 <= idx < len(sources) else f"?{idx}"
        return [re.sub(r"src(\d+)_\d+", r"src\1", name), s, e]

    if "ok" in r:
        ok = dict(r["ok"])
        ok.pop("value", None)
        ok.pop("thunk", None)
        return ("ok", json.dumps(ok, sort_keys=True), tuple(map(str, r.get("traces", []))))
    if "skip" in r:
        return ("skip",)
    e = r["err"]
    if e.get("fuel"):
        return ("fuel",)
    stack = [(it.get("k"), it.get("name"), it.get("index"), str(span(it.get("span")))) for it in e.get("stack", [])]
    return ("err", e["variant"], json.dumps(e.get("detail"), sort_keys=True), str([span(s) for s in e.get("spans", [])]), str(stack))


def check_history(case):
    # interpret the op list: build valid steps, remember each request's dependency chain
    steps = []
    thunks = []   # (source index)
    values = []   # (thunk index or ("call", f, pos, named), stack at creation)
    stack = 500
    chains = []   # per step: None or list of steps to replay on a fresh state
    evaluated = set()
    nt = False
    failed_sources = set()
    last_gc = -1
    for op, a, b, c in case["ops"]:
        if op == "load":
            pool = [x for t in case.get("themes", [len(THEMES) - 1]) for x in THEMES[t] if x < len(SOURCES)]
            i = pool[a % len(pool)]
            steps.append(["load", i])
            thunks.append(i)
            chains.append(None)
        elif op in ("eval", "eval_again") and thunks:
            t = a % len(thunks)
            if op == "eval_again" and evaluated:
                t = sorted(evaluated)[a % len(evaluated)]
                nt = True
            steps.append(["eval", t])
            values.append(("eval", t))
            chains.append([["stack", stack], ["load", thunks[t]], ["eval", 0]])
            evaluated.add(t)
        elif op == "call" and thunks:
            fs = [i for i, s in enumerate(thunks) if s in FUNCS]
            if not fs:
                continue
            f = fs[a % len(fs)]
            pos = [b % len(thunks)] if b % 3 else []
            named = [["y" if thunks[f] in (20, 21) else "x", c % len(thunks)]] if c % 2 else []
            steps.append(["call", f, pos, named])
            values.append(("call", f, pos, named))
            # replay: load f, positional and named thunks in a fresh state
            need = [f] + pos + [n[1] for n in named]
            order = []
            for t in need:
                if t not in order:
                    order.append(t)
            remap = {t: k for k, t in enumerate(order)}
            chains.append([["stack", stack]] + [["load", thunks[t]] for t in order] +
                          [["call", remap[f], [remap[p] for p in pos], [[n[0], remap[n[1]]] for n in named]]])
        elif op == "manifest" and values:
            v = a % len(values)
            ml = bool(b % 2)
            steps.append(["manifest", v, ml])
            src = values[v]
            if src[0] == "eval":
                chains.append([["stack", stack], ["load", thunks[src[1]]], ["eval", 0], ["manifest", 0, ml]])
            else:
                _, f, pos, named = src
                need = [f] + pos + [n[1] for n in named]
                order = []
                for t in need:
                    if t not in order:
                        order.append(t)
                remap = {t: k for k, t in enumerate(order)}
                chains.append([["stack", stack]] + [["load", thunks[t]] for t in order] +
                              [["call", remap[f], [remap[p] for p in pos], [[n[0], remap[n[1]]] for n in named]], ["manifest", 0, ml]])
        elif op == "gc":
            steps.append(["gc"])
            chains.append(None)
            if evaluated:
                nt = True
        elif op == "stack":
            stack = STACKS[a % len(STACKS)]
            steps.append(["stack", stack])
            chains.append(None)
        elif op == "drop":
            continue
    if not any(chains):
        return {}
    config = {"files": {"lib.libsonnet": LIB}, "ext": [{"name": "lib", "kind": "code", "val": LIB}], "pool": SOURCES, "fuel": 3_000_000}
    r = util.request({"op": "session", "steps": steps, **config}, what=f"history {steps}")
    res = r["results"]
    sources = r["sources"]
    had_failure = False
    for k, (st_, chain) in enumerate(zip(steps, chains)):
        if chain is None:
            continue
        got = norm_outcome(res[k], sources)
        if got[0] == "skip":
            continue
        fr = util.request({"op": "session", "steps": chain, **config}, what=f"fresh replay {chain}")
        exp = norm_outcome(fr["results"][-1], fr["sources"])
        if "fuel" in (got[0], exp[0]):
            continue
        if exp[0] == "skip":
            # the value does not exist on the fresh state because its producing request failed there too
            continue
        if exp[0] == "err" and exp[1] == "StackOverflow" and not (got[0] == "err" and got[1] == "StackOverflow"):
            # values memoised by earlier requests need fewer frames than a fresh state: not a difference in meaning
            continue
        if got[0] == "err" and exp[0] == "err" and got[1] == exp[1] == "StackOverflow":
            # where the limit is hit depends on what is already memoised: only the kind of outcome is comparable
            continue
        if got != exp:
            kinds = f"{got[0]}:{got[1] if got[0] == 'err' else ''}->{exp[0]}:{exp[1] if exp[0] == 'err' else ''}"
            sig = "history-dependent"
            if got[0] == "err" and got[1] == "InfiniteRecursion" and exp[0] == "err" and exp[1] != "InfiniteRecursion":
                sig = "history-dependent:inprogress-after-failure"
            elif got[0] == "err" and got[1] == "InfiniteRecursion" and exp[0] == "ok":
                sig = "history-dependent:inprogress-after-failure"
            elif exp[0] == "err" and exp[1] == "AssertFailed" and got[0] == "ok":
                sig = "history-dependent:assert-skipped-after-failure"
            raise Violation(sig, f"step {k} {st_} of history {steps}: on the long-lived state {str(got)[:400]}, on a fresh state {str(exp)[:400]} ({kinds})")
        if got[0] == "err":
            if had_failure:
                nt = True
            had_failure = True
        elif had_failure:
            nt = True
    return {"nontrivial": nt, "labels": ["with-failure" if had_failure else "all-ok"], "sample": steps[:10]}


# ---------------------------------------------------------------------------------------------
# histories on rsjsonnet_front::Session over real files (import resolution state is per session)

FS_FILES = {
    "lib/util.libsonnet": "{who: 'library util', v: 210}",
    "lib/only_lib.libsonnet": "{who: 'only in lib', u: (import 'util.libsonnet').who}",
    "lib2/util.libsonnet": "{who: 'second library util', v: 3}",
    "app1/util.libsonnet": "{who: 'app1 local util', v: 42}",
    "app1/main.jsonnet": "{who: (import 'util.libsonnet').who, v: (import 'util.libsonnet').v}",
    "app2/main.jsonnet": "{who: (import 'util.libsonnet').who, v: (import 'util.libsonnet').v}",
    "app2/via_lib.jsonnet": "(import 'only_lib.libsonnet')",
    "app1/via_lib.jsonnet": "(import 'only_lib.libsonnet') + {mine: (import 'util.libsonnet').who}",
    "app3/util.libsonnet": "{who: 'app3 local util', v: error 'app3 util is broken'}",
    "app3/main.jsonnet": "{who: (import 'util.libsonnet').who, v: (import 'util.libsonnet').v}",
    "app3/who_only.jsonnet": "(import 'util.libsonnet').who",
    "app2/missing.jsonnet": "import 'nowhere.libsonnet'",
    "app2/syntax.jsonnet": "{a: ",
    "app1/str.jsonnet": "importstr 'util.libsonnet'",
    "app2/str.jsonnet": "importstr 'util.libsonnet'",
    "app1/deep.jsonnet": "local f(n) = if n == 0 then (import 'util.libsonnet').v else f(n - 1); f(80)",
    # (std.thisFile is deliberately not exposed: it is "the path the file was first loaded by", which depends on the
    # order of requests by definition - C13 checks it)
    "app2/dotted.jsonnet": "(import './../app2/../lib/util.libsonnet').who",
}
FS_MAINS = [k for k in sorted(FS_FILES) if k.endswith(".jsonnet")]
_FS_ROOT = None


def fs_root():
    """The file tree is written once per worker process (same content for every case)."""
    global _FS_ROOT
    if _FS_ROOT is None:
        import atexit
        import os
        import shutil
        import tempfile
        d = tempfile.mkdtemp(prefix="c11fs-")
        atexit.register(shutil.rmtree, d, True)
        for rel, content in FS_FILES.items():
            os.makedirs(os.path.dirname(os.path.join(d, rel)), exist_ok=True)
            with open(os.path.join(d, rel), "w") as f:
                f.write(content)
        _FS_ROOT = d
    return _FS_ROOT


@st.composite
def fs_case(draw):
    n = draw(st.integers(2, 10))
    ops = [[draw(st.sampled_from(["load", "load", "eval", "eval", "manifest", "gc", "stack"])), draw(st.integers(0, 100)), draw(st.integers(0, 100))] for _ in range(n)]
    return {"ops": ops, "jpaths": draw(st.sampled_from([["lib"], ["lib", "lib2"], ["lib2", "lib"], []]))}


def check_fs_history(case):
    root = fs_root()
    steps, chains = [], []
    thunks, values = [], []
    stack = 500
    for op, a, b in case["ops"]:
        if op == "load":
            m = FS_MAINS[a % len(FS_MAINS)]
            steps.append(["load", m])
            thunks.append(m)
            chains.append([["stack", stack], ["load", m]])
        elif op == "eval" and thunks:
            t = a % len(thunks)
            steps.append(["eval", t])
            values.append(t)
            chains.append([["stack", stack], ["load", thunks[t]], ["eval", 0]])
        elif op == "manifest" and values:
            v = a % len(values)
            steps.append(["manifest", v, bool(b % 2)])
            chains.append([["stack", stack], ["load", thunks[values[v]]], ["eval", 0], ["manifest", 0, bool(b % 2)]])
        elif op == "gc":
            steps.append(["gc"])
            chains.append(None)
        elif op == "stack":
            stack = [30, 60, 200, 500][a % 4]
            steps.append(["stack", stack])
            chains.append(None)
    if not any(chains):
        return {}
    cfg = {"root": root, "jpaths": case["jpaths"]}
    res = util.request({"op": "fsession", "steps": steps, **cfg}, what=f"session history {steps}")["results"]
    distinct_mains = len({s[1] for s in steps if s[0] == "load"})
    failed_before = False
    nt = False
    for k, (st_, chain) in enumerate(zip(steps, chains)):
        if chain is None or "skip" in res[k]:
            continue
        fresh = util.request({"op": "fsession", "steps": chain, **cfg}, what=f"fresh session {chain}")["results"][-1]
        if "skip" in fresh:
            continue
        if "failed" in fresh and "deep" in str(chain) and "ok" in res[k]:
            continue  # memoised values need fewer frames
        if res[k] != fresh:
            raise Violation("session-history-dependent", f"step {k} {st_} of {steps} with -J {case['jpaths']}: long-lived session {str(res[k])[:300]}, fresh session {str(fresh)[:300]}")
        if "failed" in res[k]:
            failed_before = True
        elif failed_before:
            nt = True
    return {"nontrivial": nt or distinct_mains >= 2, "labels": [f"J{len(case['jpaths'])}"], "sample": {"steps": steps[:8], "jpaths": case["jpaths"]}}


CHECKS = [
    Check("session_files_history", check_fs_history, fs_case, quick=600, thorough=6000),
    Check("history_vs_fresh_state", check_history, history_case, quick=1200, thorough=20000),
]
