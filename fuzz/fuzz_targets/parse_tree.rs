#![no_main]
use libfuzzer_sys::fuzz_target;

fuzz_target!(|data: &[u8]| {
    rsjv::oracles::parse_tree(data);
});
