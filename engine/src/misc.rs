//! `lex`, `parse`, `spans`, `gcscript`, `gcenum` requests.

use std::collections::{BTreeMap, BTreeSet};

use rsjsonnet_lang::arena::Arena;
use rsjsonnet_lang::interner::StrInterner;
use rsjsonnet_lang::lexer::Lexer;
use rsjsonnet_lang::parser::Parser;
use rsjsonnet_lang::span::{SpanContext, SpanManager};
use rsjsonnet_lang::verif_hooks::ScriptedHeap;
use serde_json::{Value as J, json};

use crate::dump::{AstDumper, SpanResolver, hex_decode, lex_error_to_json, parse_error_to_json, token_to_json};

fn src_bytes(req: &J) -> Result<Vec<u8>, J> {
    match req.get("src") {
        Some(J::String(s)) => Ok(s.as_bytes().to_vec()),
        Some(J::Object(m)) => hex_decode(m.get("hex").and_then(J::as_str).unwrap_or(""))
            .map_err(|e| json!({"bad_request": e})),
        _ => Err(json!({"bad_request": "no src"})),
    }
}

pub fn op_lex(req: &J) -> J {
    let data = match src_bytes(req) {
        Ok(d) => d,
        Err(e) => return e,
    };
    let ws = req.get("ws").and_then(J::as_bool).unwrap_or(true);
    let arena = Arena::new();
    let ast_arena = Arena::new();
    let interner = StrInterner::new();
    let mut mgr = SpanManager::new();
    let (ctx, _) = mgr.insert_source_context(data.len());
    let lexer = Lexer::new(&arena, &ast_arena, &interner, &mut mgr, ctx, &data);
    let res = lexer.lex_to_eof(ws);
    let r = SpanResolver { mgr: &mgr };
    match res {
        Ok(tokens) => json!({"ok": {"tokens": tokens.iter().map(|t| {
            let mut j = token_to_json(&r, t);
            // spans as [start, end]
            let sp = j["span"].clone();
            j["span"] = json!([sp[1], sp[2]]);
            j
        }).collect::<Vec<_>>()}}),
        Err(e) => {
            let mut j = lex_error_to_json(&r, &e);
            let sp = j["spans"][0].clone();
            j["spans"] = json!([[sp[1], sp[2]]]);
            json!({"err": j})
        }
    }
}

pub fn op_parse(req: &J) -> J {
    let data = match src_bytes(req) {
        Ok(d) => d,
        Err(e) => return e,
    };
    let arena = Arena::new();
    let ast_arena = Arena::new();
    let interner = StrInterner::new();
    let mut mgr = SpanManager::new();
    let (ctx, _) = mgr.insert_source_context(data.len());
    let lexer = Lexer::new(&arena, &ast_arena, &interner, &mut mgr, ctx, &data);
    let tokens = match lexer.lex_to_eof(false) {
        Ok(t) => t,
        Err(e) => {
            let r = SpanResolver { mgr: &mgr };
            let mut j = lex_error_to_json(&r, &e);
            let sp = j["spans"][0].clone();
            j["spans"] = json!([[sp[1], sp[2]]]);
            return json!({"err": j});
        }
    };
    let parser = Parser::new(&arena, &ast_arena, &interner, &mut mgr, tokens);
    let res = parser.parse_root_expr();
    match res {
        Ok(expr) => {
            let d = AstDumper {
                r: SpanResolver { mgr: &mgr },
            };
            json!({"ok": {"ast": d.expr(&expr)}})
        }
        Err(e) => {
            let r = SpanResolver { mgr: &mgr };
            let mut j = parse_error_to_json(&r, &e);
            let sp = j["spans"][0].clone();
            j["spans"] = json!([[sp[1], sp[2]]]);
            json!({"err": j})
        }
    }
}

/// Script over a `SpanManager`: `["ctx", len]`, `["intern", ctx, start, end]`, `["get", span_index]`.
pub fn op_spans(req: &J) -> J {
    let mut mgr = SpanManager::new();
    let mut ctxs = Vec::new();
    let mut spans = Vec::new();
    let mut results = Vec::new();
    for step in req.get("script").and_then(J::as_array).cloned().unwrap_or_default() {
        match step[0].as_str().unwrap_or("") {
            "ctx" => {
                let len = step[1].as_u64().unwrap_or(0) as usize;
                let (c, s) = mgr.insert_source_context(len);
                ctxs.push((c, s));
                results.push(json!({"ctx": ctxs.len() - 1}));
            }
            "intern" => {
                let c = step[1].as_u64().unwrap_or(0) as usize;
                let s = step[2].as_u64().unwrap_or(0) as usize;
                let e = step[3].as_u64().unwrap_or(0) as usize;
                let id = mgr.intern_span(ctxs[c].0, s, e);
                spans.push(id);
                results.push(json!({"span": spans.len() - 1, "inline": format!("{id:?}").starts_with("Inline")}));
            }
            "get" => {
                let i = step[1].as_u64().unwrap_or(0) as usize;
                let (c, s, e) = mgr.get_span(spans[i]);
                let ci = ctxs.iter().position(|x| x.0 == c).map(|x| x as i64).unwrap_or(-1);
                let SpanContext::Source(src) = mgr.get_context(c);
                let src_ok = ci >= 0 && *src == ctxs[ci as usize].1;
                results.push(json!({"get": [ci, s, e], "src_ok": src_ok}));
            }
            _ => results.push(J::Null),
        }
    }
    json!({"results": results})
}

// ---------------------------------------------------------------------------------------------
// Scripted heap

/// Ops: ["alloc", strong], ["edge", src_h, dst_h], ["deledge", h, idx], ["take", h, idx],
/// ["clone", h], ["upgrade", h], ["downgrade", h], ["drop", h], ["gc"], ["edges", h], ["id", h].
/// Handles are referred to by index; ops naming a dropped or out-of-range handle are skipped
/// (reported as `skip`). After every op the response carries `dropped` and `num`.
pub fn op_gcscript(req: &J) -> J {
    let mut heap = ScriptedHeap::new();
    let mut n_handles = 0usize;
    let mut results = Vec::new();
    let live = |heap: &ScriptedHeap, h: usize, n: usize| h < n && heap.handle_is_live(h);
    for step in req.get("ops").and_then(J::as_array).cloned().unwrap_or_default() {
        let h1 = step.get(1).and_then(J::as_u64).unwrap_or(0) as usize;
        let h2 = step.get(2).and_then(J::as_u64).unwrap_or(0) as usize;
        let mut r = serde_json::Map::new();
        match step[0].as_str().unwrap_or("") {
            "alloc" => {
                let strong = step[1].as_bool().unwrap_or(false);
                let (id, h) = heap.alloc(strong);
                n_handles = h + 1;
                r.insert("id".into(), json!(id));
                r.insert("h".into(), json!(h));
            }
            "edge" => {
                if live(&heap, h1, n_handles) && live(&heap, h2, n_handles) {
                    heap.add_edge(h1, h2);
                } else {
                    r.insert("skip".into(), json!(true));
                }
            }
            "deledge" => {
                if live(&heap, h1, n_handles) && h2 < heap.edges(h1).len() {
                    heap.del_edge(h1, h2);
                } else {
                    r.insert("skip".into(), json!(true));
                }
            }
            "take" => {
                if live(&heap, h1, n_handles) && h2 < heap.edges(h1).len() {
                    let h = heap.take_edge(h1, h2);
                    n_handles = h + 1;
                    r.insert("h".into(), json!(h));
                } else {
                    r.insert("skip".into(), json!(true));
                }
            }
            "clone" | "upgrade" | "downgrade" => {
                if live(&heap, h1, n_handles) {
                    let h = match step[0].as_str().unwrap() {
                        "clone" => heap.clone_handle(h1),
                        "upgrade" => heap.upgrade(h1),
                        _ => heap.downgrade(h1),
                    };
                    n_handles = h + 1;
                    r.insert("h".into(), json!(h));
                } else {
                    r.insert("skip".into(), json!(true));
                }
            }
            "drop" => {
                if live(&heap, h1, n_handles) {
                    heap.drop_handle(h1);
                } else {
                    r.insert("skip".into(), json!(true));
                }
            }
            "gc" => heap.gc(),
            "edges" => {
                if live(&heap, h1, n_handles) {
                    r.insert("edges".into(), json!(heap.edges(h1)));
                } else {
                    r.insert("skip".into(), json!(true));
                }
            }
            "id" => {
                if live(&heap, h1, n_handles) {
                    r.insert("id".into(), json!(heap.node_id(h1)));
                } else {
                    r.insert("skip".into(), json!(true));
                }
            }
            _ => {
                r.insert("skip".into(), json!(true));
            }
        }
        r.insert("dropped".into(), json!(heap.dropped()));
        r.insert("num".into(), json!(heap.num_objects()));
        results.push(J::Object(r));
    }
    json!({"results": results})
}

// Exhaustive enumeration of small heaps with an in-engine reachability model.

#[derive(Clone, Copy, PartialEq, Eq, Debug)]
enum HKind {
    None,
    Weak,
    Strong,
    Both,
}

struct Shape {
    n: usize,
    /// multiplicity of edge i -> j (0..=2)
    edges: Vec<Vec<u8>>,
    handles: Vec<HKind>,
}

/// Model: node -> multiset of edges; handles -> node. Live = reachable from nodes with handles.
struct Built {
    heap: ScriptedHeap,
    /// model edges in insertion order
    medges: BTreeMap<u32, Vec<u32>>,
    /// handle index -> node id (None if dropped)
    mhandles: Vec<Option<u32>>,
}

impl Built {
    fn reachable(&self) -> BTreeSet<u32> {
        let mut seen = BTreeSet::new();
        let mut stack: Vec<u32> = self.mhandles.iter().flatten().copied().collect();
        while let Some(x) = stack.pop() {
            if seen.insert(x) {
                for &y in self.medges.get(&x).map(|v| v.as_slice()).unwrap_or(&[]) {
                    stack.push(y);
                }
            }
        }
        seen
    }

    /// Checks the model against the heap; returns an error description on mismatch.
    fn check(&mut self, after_gc: bool) -> Result<(), String> {
        let reach = self.reachable();
        let dropped: BTreeSet<u32> = self.heap.dropped().into_iter().collect();
        if let Some(x) = reach.iter().find(|x| dropped.contains(x)) {
            return Err(format!("reachable node {x} was destroyed"));
        }
        if after_gc {
            let expected_dead: BTreeSet<u32> = self
                .medges
                .keys()
                .copied()
                .filter(|x| !reach.contains(x))
                .collect();
            if expected_dead != dropped {
                return Err(format!(
                    "after gc: destroyed {dropped:?}, unreachable {expected_dead:?}"
                ));
            }
            if self.heap.num_objects() != reach.len() {
                return Err(format!(
                    "after gc: num_objects {} != reachable {}",
                    self.heap.num_objects(),
                    reach.len()
                ));
            }
        }
        // Touch every live handle and its edges, compare with the model.
        for (h, node) in self.mhandles.iter().enumerate() {
            if let Some(node) = node {
                let id = self.heap.node_id(h);
                if id != *node {
                    return Err(format!("handle {h} names node {id}, expected {node}"));
                }
                let edges = self.heap.edges(h);
                if &edges != self.medges.get(node).unwrap() {
                    return Err(format!("edges of node {node} differ: {edges:?}"));
                }
            }
        }
        Ok(())
    }

    fn deep_touch(&mut self) -> Result<(), String> {
        // Walk through edges by taking temporary handles (BFS), then drop them again.
        let base = self.mhandles.len();
        let mut seen = BTreeSet::new();
        let mut queue: Vec<usize> = (0..base).filter(|&h| self.mhandles[h].is_some()).collect();
        let mut temp = Vec::new();
        while let Some(h) = queue.pop() {
            let id = self.heap.node_id(h);
            if !seen.insert(id) {
                continue;
            }
            let n = self.heap.edges(h).len();
            for i in 0..n {
                let nh = self.heap.take_edge(h, i);
                temp.push(nh);
                queue.push(nh);
            }
        }
        for h in temp {
            self.heap.drop_handle(h);
        }
        let reach = self.reachable();
        if seen != reach {
            return Err(format!("walk reached {seen:?}, model says {reach:?}"));
        }
        Ok(())
    }
}

fn build(shape: &Shape) -> Built {
    let mut heap = ScriptedHeap::new();
    let mut medges = BTreeMap::new();
    let mut mhandles = Vec::new();
    // Allocate every node with a temporary weak handle first.
    let mut first = Vec::new();
    for i in 0..shape.n {
        // allocate as view when the node keeps a strong handle only, to exercise `alloc_view`
        let strong = matches!(shape.handles[i], HKind::Strong);
        let (id, h) = heap.alloc(strong);
        assert_eq!(id as usize, i);
        first.push(h);
        mhandles.push(Some(id));
        medges.insert(id, Vec::new());
    }
    for i in 0..shape.n {
        for j in 0..shape.n {
            for _ in 0..shape.edges[i][j] {
                heap.add_edge(first[i], first[j]);
                medges.get_mut(&(i as u32)).unwrap().push(j as u32);
            }
        }
    }
    for i in 0..shape.n {
        match shape.handles[i] {
            HKind::None => {
                heap.drop_handle(first[i]);
                mhandles[first[i]] = None;
            }
            HKind::Weak | HKind::Strong => {}
            HKind::Both => {
                let h = heap.upgrade(first[i]);
                assert_eq!(h, mhandles.len());
                mhandles.push(Some(i as u32));
            }
        }
    }
    Built {
        heap,
        medges,
        mhandles,
    }
}

#[derive(Clone, Debug)]
enum ExtraOp {
    Nothing,
    Drop(usize),
    Upgrade(usize),
    Downgrade(usize),
    AddEdge(usize, usize),
    DelEdge(usize, usize),
    Take(usize, usize),
    Alloc(bool),
}

fn apply_extra(b: &mut Built, op: &ExtraOp) {
    match *op {
        ExtraOp::Nothing => {}
        ExtraOp::Drop(h) => {
            b.heap.drop_handle(h);
            b.mhandles[h] = None;
        }
        ExtraOp::Upgrade(h) => {
            let nh = b.heap.upgrade(h);
            assert_eq!(nh, b.mhandles.len());
            let n = b.mhandles[h];
            b.mhandles.push(n);
        }
        ExtraOp::Downgrade(h) => {
            let nh = b.heap.downgrade(h);
            assert_eq!(nh, b.mhandles.len());
            let n = b.mhandles[h];
            b.mhandles.push(n);
        }
        ExtraOp::AddEdge(s, d) => {
            b.heap.add_edge(s, d);
            let sn = b.mhandles[s].unwrap();
            let dn = b.mhandles[d].unwrap();
            b.medges.get_mut(&sn).unwrap().push(dn);
        }
        ExtraOp::DelEdge(h, i) => {
            b.heap.del_edge(h, i);
            let sn = b.mhandles[h].unwrap();
            b.medges.get_mut(&sn).unwrap().remove(i);
        }
        ExtraOp::Take(h, i) => {
            let nh = b.heap.take_edge(h, i);
            assert_eq!(nh, b.mhandles.len());
            let sn = b.mhandles[h].unwrap();
            let dn = b.medges[&sn][i];
            b.mhandles.push(Some(dn));
        }
        ExtraOp::Alloc(strong) => {
            let (id, h) = b.heap.alloc(strong);
            assert_eq!(h, b.mhandles.len());
            b.mhandles.push(Some(id));
            b.medges.insert(id, Vec::new());
        }
    }
}

fn extra_ops(b: &Built) -> Vec<ExtraOp> {
    let mut ops = vec![ExtraOp::Nothing, ExtraOp::Alloc(false), ExtraOp::Alloc(true)];
    let live: Vec<usize> = (0..b.mhandles.len()).filter(|&h| b.mhandles[h].is_some()).collect();
    for &h in &live {
        ops.push(ExtraOp::Drop(h));
        ops.push(ExtraOp::Upgrade(h));
        ops.push(ExtraOp::Downgrade(h));
        let node = b.mhandles[h].unwrap();
        for i in 0..b.medges[&node].len() {
            ops.push(ExtraOp::DelEdge(h, i));
            ops.push(ExtraOp::Take(h, i));
        }
        for &d in &live {
            ops.push(ExtraOp::AddEdge(h, d));
        }
    }
    ops
}

fn run_shape(shape: &Shape, counters: &mut (u64, u64)) -> Result<(), String> {
    // First pass to find the extra ops available after the first collection.
    let n_extra = {
        let mut b = build(shape);
        b.check(false)?;
        b.heap.gc();
        b.check(true)?;
        b.deep_touch()?;
        b.heap.gc();
        b.check(true).map_err(|e| format!("second gc: {e}"))?;
        extra_ops(&b).len()
    };
    counters.0 += 1;
    for k in 0..n_extra {
        let mut b = build(shape);
        b.heap.gc();
        b.check(true)?;
        let ops = extra_ops(&b);
        let op = ops[k].clone();
        apply_extra(&mut b, &op);
        b.check(false).map_err(|e| format!("after {op:?}: {e}"))?;
        b.heap.gc();
        b.check(true).map_err(|e| format!("gc after {op:?}: {e}"))?;
        b.deep_touch().map_err(|e| format!("walk after {op:?}: {e}"))?;
        counters.1 += 1;
    }
    Ok(())
}

fn shape_to_json(s: &Shape) -> J {
    json!({
        "n": s.n,
        "edges": s.edges,
        "handles": s.handles.iter().map(|h| format!("{h:?}")).collect::<Vec<_>>(),
    })
}

/// Enumerates every heap with `n` nodes: edge multiplicities 0..=maxmul, handle kinds
/// none/weak/strong/both, then one extra op and a second collection.
pub fn op_gcenum(req: &J) -> J {
    let n = req.get("n").and_then(J::as_u64).unwrap_or(2) as usize;
    let maxmul = req.get("maxmul").and_then(J::as_u64).unwrap_or(1) as u8;
    let kinds = [HKind::None, HKind::Weak, HKind::Strong, HKind::Both];
    let cells = n * n;
    let base = (maxmul + 1) as u64;
    let total_edges = base.pow(cells as u32);
    let total_handles = 4u64.pow(n as u32);
    let mut counters = (0u64, 0u64);
    let mut samples = Vec::new();
    let mut nontrivial = 0u64;
    let parts = req.get("parts").and_then(J::as_u64).unwrap_or(1).max(1);
    let part = req.get("part").and_then(J::as_u64).unwrap_or(0);
    for ecode in 0..total_edges {
        if ecode % parts != part {
            continue;
        }
        let mut edges = vec![vec![0u8; n]; n];
        let mut c = ecode;
        for i in 0..n {
            for j in 0..n {
                edges[i][j] = (c % base) as u8;
                c /= base;
            }
        }
        for hcode in 0..total_handles {
            let mut handles = Vec::new();
            let mut c = hcode;
            for _ in 0..n {
                handles.push(kinds[(c % 4) as usize]);
                c /= 4;
            }
            let shape = Shape {
                n,
                edges: edges.clone(),
                handles,
            };
            let has_cycle_garbage = shape.handles.iter().any(|h| *h == HKind::None)
                && (0..n).any(|i| (0..n).any(|j| shape.edges[i][j] > 0));
            if has_cycle_garbage {
                nontrivial += 1;
            }
            if samples.len() < 3 && has_cycle_garbage && (ecode * 7 + hcode) % 97 == 3 {
                samples.push(shape_to_json(&shape));
            }
            let res = std::panic::catch_unwind(std::panic::AssertUnwindSafe(|| {
                let mut c2 = (0, 0);
                let r = run_shape(&shape, &mut c2);
                (r, c2)
            }));
            match res {
                Ok((Ok(()), c2)) => {
                    counters.0 += c2.0;
                    counters.1 += c2.1;
                }
                Ok((Err(e), _)) => {
                    return json!({"violation": {"shape": shape_to_json(&shape), "what": e}});
                }
                Err(p) => {
                    let msg = p
                        .downcast_ref::<String>()
                        .cloned()
                        .or_else(|| p.downcast_ref::<&str>().map(|s| s.to_string()))
                        .unwrap_or_default();
                    return json!({"violation": {"shape": shape_to_json(&shape), "what": format!("panic: {msg}")}});
                }
            }
        }
    }
    json!({"ok": {"shapes": counters.0, "scenarios": counters.1, "nontrivial": nontrivial, "samples": samples}})
}

/// Replays one enumerated shape (from a violation report).
pub fn op_gcshape(req: &J) -> J {
    let s = &req["shape"];
    let n = s["n"].as_u64().unwrap_or(0) as usize;
    let edges: Vec<Vec<u8>> = s["edges"]
        .as_array()
        .map(|rows| {
            rows.iter()
                .map(|r| r.as_array().map(|c| c.iter().map(|x| x.as_u64().unwrap_or(0) as u8).collect()).unwrap_or_default())
                .collect()
        })
        .unwrap_or_default();
    let handles: Vec<HKind> = s["handles"]
        .as_array()
        .map(|hs| {
            hs.iter()
                .map(|h| match h.as_str().unwrap_or("None") {
                    "Weak" => HKind::Weak,
                    "Strong" => HKind::Strong,
                    "Both" => HKind::Both,
                    _ => HKind::None,
                })
                .collect()
        })
        .unwrap_or_default();
    let shape = Shape { n, edges, handles };
    let mut c = (0, 0);
    match run_shape(&shape, &mut c) {
        Ok(()) => json!({"ok": {"scenarios": c.1}}),
        Err(e) => json!({"violation": {"shape": shape_to_json(&shape), "what": e}}),
    }
}
