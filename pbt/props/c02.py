"""C02 - the core language evaluates as the Jsonnet specification defines."""
from hypothesis import strategies as st

from ..core import Check, Violation
from ..gen import printer as P
from ..gen import programs as G
from ..gen import values as V
from ..ref import interp
from .. import util
from .c15 import chooser

PROPERTY = "C02"
RULE = ("closed, terminating programs from a type-directed, scope-tracking generator over the core language (literals, "
        "arithmetic/bitwise/logical/comparison operators, string/array concatenation and indexing, slices, locals, "
        "functions with default and named arguments, bounded recursion, conditionals, array and object comprehensions, "
        "objects with inheritance chains in every bracketing, self / super.f / super[e] / e in super / $, all "
        "visibilities, +: fields, object locals, asserts, computed and null field names, error), printed with varied "
        "parenthesisation/whitespace/spelling; oracle = a lazy reference interpreter written from the specification "
        "(value equality; explicit errors and failed assertions with the same message; other failures must fail). "
        "Non-trivial = >= 2 distinct feature classes from {inheritance, super, +:, visibility change, comprehension, "
        "named/default argument, object local, assert, slice, computed name} and >= 30 reference evaluation steps; "
        "distinct by SHA-1 of the case")

CLASSES = {"inheritance", "super", "plus-field", "visibility", "comprehension", "object-comprehension", "named-arg", "default-arg", "object-local",
           "assert", "assert-expr", "slice", "computed-name", "self", "dollar", "in-super", "override", "recursion", "object-extension"}


def py_to_typed(v):
    if v is None or isinstance(v, (bool, str)):
        return v
    if isinstance(v, float):
        return V.num(v)
    if isinstance(v, list):
        return {"a": [py_to_typed(x) for x in v]}
    return {"o": [[k, py_to_typed(x)] for k, x in sorted(v.items())]}


@st.composite
def program_case(draw):
    c = draw(G.programs(max_depth=draw(st.sampled_from([3, 4, 5])), ill_typed_rate=draw(st.sampled_from([0, 0, 0, 25]))))
    c["choices"] = draw(st.lists(st.integers(0, 1000), min_size=6, max_size=30))
    c["parens"] = draw(st.sampled_from(["minimal", "minimal", "random", "full"]))
    c["spacing"] = draw(st.sampled_from(["normal", "tight", "noisy"]))
    return c


def check_program(case):
    tree = case["tree"]
    I = interp.Interp(200_000)
    ref = interp.evaluate(tree)
    if ref[0] == "limit":
        return {"labels": ["ref-limit"]}
    if ref[0] == "error" and ref[1] == "static":
        raise RuntimeError(f"generator produced an ill-scoped program: {ref}")
    text, _ = P.print_tree(tree, chooser(case["choices"]), case["parens"], case["spacing"])
    r = util.request({"op": "eval", "src": text, "want": ["multi", "typed"], "fuel": 5_000_000, "max_stack": 2000}, what=text[:400])
    if "err" in r and r["err"].get("fuel"):
        return {"labels": ["impl-fuel"]}
    if ref[0] == "value":
        if "ok" not in r:
            raise Violation("spec-value-impl-error", f"the specification gives {str(ref[1])[:200]} but evaluation failed ({r['err'].get('phase')}/{r['err'].get('variant')}: {r['err'].get('detail')}) for {text[:600]!r}")
        want = py_to_typed(ref[1])
        got = r["ok"]["typed"]
        if not V.same(got, want, zero_sign=False):
            raise Violation("spec-value-differs", f"the specification gives {V.show(want)[:300]}, the implementation {V.show(got)[:300]} for {text[:600]!r}")
        out = "value"
    else:
        _, kind, msg = ref
        if "ok" in r:
            raise Violation("spec-error-impl-value", f"the specification makes the program fail ({kind}: {msg}) but it evaluated to {V.show(r['ok']['typed'])[:200]}: {text[:600]!r}")
        e = r["err"]
        if e.get("phase") in ("lex", "parse", "analyze"):
            raise Violation("spec-error-impl-static", f"a well-formed program was rejected before evaluation ({e.get('variant')} {e.get('detail')}): {text[:600]!r}")
        if "ill-typed" in case["features"]:
            # a second potentially failing site exists (the injected ill-typed sub-term): which failure is reported
            # first is an evaluation-order detail, so only "fails" is compared
            kind = "other"
        if kind == "explicit":
            if e["variant"] != "ExplicitError" or e["detail"]["message"] != msg:
                raise Violation("explicit-error-differs", f"expected `error` with message {msg!r}, got {e['variant']} {e.get('detail')}: {text[:600]!r}")
        elif kind == "assert":
            if e["variant"] != "AssertFailed" or e["detail"]["message"] != msg:
                raise Violation("assert-error-differs", f"expected a failed assertion with message {msg!r}, got {e['variant']} {e.get('detail')}: {text[:600]!r}")
        out = "error:" + kind
    feats = set(case["features"])
    nt = len(feats & CLASSES) >= 2
    return {"nontrivial": nt, "labels": [out] + sorted(feats & {"inheritance", "super", "self", "plus-field", "object-comprehension", "default-arg"})[:3],
            "sample": text[:400]}


CHECKS = [
    Check("reference_interpreter", check_program, program_case, quick=1000, thorough=12000),
]
