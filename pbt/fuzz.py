"""Coverage-guided campaigns (cargo-fuzz / libFuzzer) for the byte-level domains, thorough tier only.

The targets call the oracle functions of the engine library (engine/src/oracles.rs), so a saved crash input is
replayed through the engine's `oracle` request (check `fuzz_oracle_replay`) without libFuzzer."""
import glob
import hashlib
import json
import os
import re
import shutil
import subprocess

from . import util
from .core import ROOT, Check, Violation

FUZZ_BIN_DIR = os.path.join(ROOT, ".build", "fuzz-target", "x86_64-unknown-linux-gnu", "release")


def oracle_case_check(case):
    r = util.request({"op": "oracle", "name": case["target"], "hex": case["hex"]}, what=f"oracle {case['target']} on {bytes.fromhex(case['hex'])[:200]!r}")
    return {"nontrivial": len(case["hex"]) > 8, "labels": [case["target"]], "sample": {"target": case["target"], "input": bytes.fromhex(case["hex"])[:120].decode("utf-8", "replace")}}


def corpus_enum(targets, extra=()):
    """Quick-tier use of the Rust oracles: every ui-tests source (and extra inputs) through each target's oracle."""
    def gen(tier, worker, nworkers):
        files = sorted(glob.glob("/repo/ui-tests/**/*.jsonnet", recursive=True))
        k = 0
        for t in targets:
            for f in files:
                k += 1
                if k % nworkers == worker:
                    yield {"target": t, "hex": open(f, "rb").read().hex()}
            for x in extra:
                k += 1
                if k % nworkers == worker:
                    yield {"target": t, "hex": bytes(x).hex()}
    return gen


def replay_check(targets, extra=()):
    return Check("fuzz_oracle_replay", oracle_case_check, enumerate_fn=corpus_enum(targets, extra))


def run_campaigns(prop, targets, seed, jobs=4):
    """targets: [(name, runs, max_len)]. Returns (stats, crashes, inconclusive)."""
    stats = {}
    crashes = []
    inconclusive = []
    procs = []
    for name, runs, max_len in targets:
        binp = os.path.join(FUZZ_BIN_DIR, name)
        if not os.path.exists(binp):
            inconclusive.append(f"fuzz target {name} not built")
            continue
        for j in range(jobs):
            tag = f"{name}-{seed}-{j}"
            corpus = os.path.join(ROOT, ".build", "fuzz-corpus", tag)
            art = os.path.join(ROOT, ".build", "fuzz-artifacts", tag) + "/"
            shutil.rmtree(corpus, ignore_errors=True)
            shutil.rmtree(art, ignore_errors=True)
            os.makedirs(corpus)
            os.makedirs(art)
            files = sorted(glob.glob("/repo/ui-tests/**/*.jsonnet", recursive=True))
            for i, f in enumerate(files):
                if i % jobs == j or name == "lex_tile":
                    shutil.copy(f, os.path.join(corpus, f"ui-{i}.jsonnet"))
            for f in glob.glob(os.path.join(ROOT, "replays", prop, "*.json")):
                try:
                    c = json.load(open(f))["case"]
                    if isinstance(c, dict) and "hex" in c:
                        open(os.path.join(corpus, "replay-" + hashlib.sha1(c["hex"].encode()).hexdigest()[:10]), "wb").write(bytes.fromhex(c["hex"]))
                except Exception:
                    pass
            cmd = [binp, corpus, f"-runs={runs}", f"-seed={seed * 100 + j + 1}", f"-max_len={max_len}", "-len_control=0", "-timeout=25", "-rss_limit_mb=4096",
                   f"-artifact_prefix={art}", "-print_final_stats=1", "-close_fd_mask=0"]
            log = open(os.path.join(ROOT, ".build", "logs", f"fuzz-{tag}.log"), "wb")
            procs.append((name, tag, art, subprocess.Popen(cmd, stdout=log, stderr=subprocess.STDOUT), log))
    for name, tag, art, p, log in procs:
        try:
            rc = p.wait(timeout=6 * 3600)
        except subprocess.TimeoutExpired:
            p.kill()
            inconclusive.append(f"fuzz campaign {tag} exceeded its wall limit")
            continue
        log.close()
        text = open(log.name, "rb").read().decode("utf-8", "replace")
        m = re.search(r"stat::number_of_executed_units:\s*(\d+)", text)
        execs = int(m.group(1)) if m else 0
        st = stats.setdefault(name, {"executions": 0, "campaigns": 0, "crashes": 0, "timeouts_or_ooms": 0})
        st["executions"] += execs
        st["campaigns"] += 1
        for a in sorted(os.listdir(art)):
            data = open(os.path.join(art, a), "rb").read()
            if a.startswith("crash-"):
                st["crashes"] += 1
                crashes.append((name, data, text[-1500:]))
            else:
                st["timeouts_or_ooms"] += 1
                inconclusive.append(f"fuzz campaign {tag}: {a} (timeout/oom is inconclusive, not a violation)")
        if rc != 0 and not os.listdir(art):
            inconclusive.append(f"fuzz campaign {tag} exited {rc} without an artifact: {text[-300:]}")
    return stats, crashes, inconclusive
