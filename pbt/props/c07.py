"""C07 - object inheritance is associative, late-bound and visibility-preserving."""
from hypothesis import strategies as st

from ..core import Check, Violation
from ..gen import values as V
from .. import util

PROPERTY = "C07"
RULE = ("chains of 2-5 generated object expressions over a shared field-name pool (so that overrides collide): fields of all "
        "visibilities, +: in every visibility, guarded super.f / super[e] / e in super, self.g and $.g (acyclic by name "
        "order), object locals, asserts, computed names, comprehension-built objects, objects returned by "
        "std.objectRemoveKey / std.mergePatch / std.prune / std.mapWithKey; every bracketing of the chain and the chain "
        "extended by {} on either side must give the same *inspection record* (manifested JSON, objectFields, "
        "objectFieldsAll, length, `in` / objectHas / objectHasAll for every pool name, string form of every hidden "
        "field); inside one record the views must agree with each other and with the visibility computed from the chain by "
        "the : / :: / ::: rules; std.objectRemoveKey must remove exactly the named field and the result must behave under "
        "further extension. Non-trivial = the chain contains super / +: / a visibility change across layers / a removal "
        "and a name defined in >= 2 layers; distinct by SHA-1 of the case")

POOL = ["a", "b", "c", "d"]
JS = V.jsonnet_string


@st.composite
def field_value(draw, name, kind):
    """A total expression (never fails in any chain) that may read smaller names through self/$ and names <= name through super."""
    smaller = [n for n in POOL if n < name]
    le = [n for n in POOL if n <= name]
    c = draw(st.integers(0, 9))
    k = draw(st.integers(0, 9))
    if c <= 2 or (not smaller and c in (3, 4)):
        return str(k), set()
    if c == 3:
        g = draw(st.sampled_from(smaller))
        return f"(if {JS(g)} in self then self.{g} else 0) + {k}", {g}
    if c == 4:
        g = draw(st.sampled_from(smaller))
        return f"std.get($, {JS(g)}, 100) + {k}", {g}
    if c == 5:
        f = draw(st.sampled_from(le))
        return f"(if {JS(f)} in super then super.{f} else {k})", {f}
    if c == 6:
        f = draw(st.sampled_from(le))
        return f"(if {JS(f)} in super then super[{JS(f)}] + 1 else {k})", {f}
    if c == 7:
        f = draw(st.sampled_from(POOL))
        return f"(if {JS(f)} in super then 1 else 0) + {k}", set()
    if c == 8:
        return f"std.length(std.objectFields(self)) * 0 + {k}", set()
    return f"lv + {k}", set()


@st.composite
def layer(draw):
    """Returns (source text, model) with model = {"fields": {name: vis}, "removed": [names], "plain": bool, "reads": {name: set}}."""
    kind = draw(st.sampled_from(["lit", "lit", "lit", "lit", "comp", "remove", "mergepatch", "prune", "mapwithkey", "empty", "nested-plus", "assert-mixin"]))
    if kind == "empty":
        return "{}", {"fields": {}, "removed": [], "features": set()}
    if kind == "assert-mixin":
        # a validation mixin: no fields, an assertion about the final object (it may legitimately fail)
        n = draw(st.sampled_from(POOL))
        k = draw(st.sampled_from([-1, 3, 6, 50, 1000]))
        loc = "local lim = %d, " % k if draw(st.booleans()) else ""
        lim = "lim" if loc else str(k)
        return "{%sassert std.get(self, %s, 0) <= %s : '%s exceeds %d'}" % (loc, JS(n), lim, n, k), {"fields": {}, "removed": [], "features": {"assert-mixin"}}
    names = draw(st.lists(st.sampled_from(POOL), min_size=1, max_size=3, unique=True))
    feats = set()
    if kind == "lit" or kind == "remove" or kind == "nested-plus":
        parts = ["local lv = 7"]
        fields = {}
        if draw(st.integers(0, 3)) == 0:
            parts.append("assert std.isObject(self) : 'never'")
        for n in sorted(names):
            vis = draw(st.sampled_from([":", ":", "::", ":::"]))
            plus = draw(st.integers(0, 2)) == 0
            val, reads = draw(field_value(n, kind))
            nm = n if draw(st.integers(0, 3)) else ("[" + JS(n) + "]" if draw(st.booleans()) else JS(n))
            parts.append(f"{nm}{'+' if plus else ''}{vis} {val}")
            fields[n] = vis
            if plus:
                feats.add("plus")
            if "super" in val:
                feats.add("super")
            if vis != ":":
                feats.add("vis")
        src = "{" + ", ".join(parts) + "}"
        model = {"fields": fields, "removed": [], "features": feats}
        if kind == "remove":
            k = draw(st.sampled_from(POOL))
            src = f"std.objectRemoveKey({src}, {JS(k)})"
            model = {"fields": {n: v for n, v in fields.items() if n != k}, "removed": [], "features": feats | {"remove"}}
        if kind == "nested-plus":
            # a layer that is itself a two-layer chain
            src2, m2 = draw(layer())
            src = f"({src} + {src2})"
            model = {"chain": [model, m2], "features": feats | m2["features"]}
        return src, model
    if kind == "comp":
        k = draw(st.integers(0, 9))
        # the field bodies of a comprehension see self/super/object locals like ordinary fields do
        body, feats = draw(st.sampled_from([
            (str(k), set()), (str(k), set()),
            (f"(if k in super then super[k] + 1 else {k})", {"super"}),
            (f"(if {JS(draw(st.sampled_from(POOL)))} in super then 1 else 0) + {k}", {"super"}),
            (f"lv + {k}", {"comp-local"}),
            (f"std.length(std.objectFields(self)) * 0 + {k}", set()),
            (f"std.length(std.objectFieldsAll($)) * 0 + {k}", set()),
        ]))
        plus = draw(st.integers(0, 3)) == 0
        loc = ""
        if "lv" in body:
            loc = "local lv = 7, "
        elif draw(st.integers(0, 3)) == 0:
            loc = "local unused = self, "
        src = "{" + loc + "[k]" + ("+" if plus else "") + ": " + body + " for k in [" + ", ".join(JS(n) for n in names) + "]}"
        return src, {"fields": {n: ":" for n in names}, "removed": [], "features": {"comp"} | feats | ({"plus"} if plus else set())}
    # objects returned by the library are, by the library's definitions, comprehensions over the *visible* fields of their argument:
    # hidden fields do not survive and every surviving field has default visibility (a `:::` of the argument is not inherited)
    bvis = {n: draw(st.sampled_from([":", ":", "::", ":::"])) for n in names}
    base = "{" + ", ".join(f"{n}{bvis[n]} {draw(st.integers(1, 9))}" for n in names) + "}"
    if draw(st.integers(0, 3)) == 0:
        # the argument is itself a chain: visibility inherited inside the argument
        n0 = draw(st.sampled_from(names))
        v0 = draw(st.sampled_from(["::", ":::"]))
        base = "({" + f"{n0}{v0} 0" + "} + " + base + ")"
        if bvis[n0] == ":":
            bvis[n0] = v0
    survivors = [n for n in names if bvis[n] != "::"]
    feats = {"derived"} | ({"vis"} if any(v != ":" for v in bvis.values()) else set())
    if kind == "mergepatch":
        other = draw(st.sampled_from(POOL))
        src = f"std.mergePatch({base}, {{{other}: {draw(st.integers(1, 9))}}})"
        fs = {n: ":" for n in survivors}
        fs[other] = ":"
        return src, {"fields": fs, "removed": [], "features": feats}
    if kind == "prune":
        return f"std.prune({base} + {{zz_null: null}})", {"fields": {n: ":" for n in survivors}, "removed": [], "features": feats}
    return f"std.mapWithKey(function(k, v) v + 1, {base})", {"fields": {n: ":" for n in survivors}, "removed": [], "features": feats}


def flatten(models):
    out = []
    for m in models:
        if "chain" in m:
            out += flatten(m["chain"])
        else:
            out.append(m)
    return out


def expected_visibility(models):
    """name -> 'visible' | 'hidden' for the names that exist in the chain."""
    res = {}
    for n in POOL:
        exists = False
        vis = None
        for m in reversed(flatten(models)):
            v = m["fields"].get(n)
            if v is None:
                continue
            exists = True
            if v != ":" and vis is None:
                vis = v
        if exists:
            res[n] = "hidden" if vis == "::" else "visible"
    return res


RECORD = """local O = %s;
{
  json: std.manifestJsonMinified(O),
  fields: std.objectFields(O),
  fieldsAll: std.objectFieldsAll(O),
  length: std.length(O),
  has: {[n]: [n in O, std.objectHas(O, n), std.objectHasAll(O, n)] for n in ['a', 'b', 'c', 'd', 'zz']},
  values: {[n]: std.toString(O[n]) for n in std.objectFieldsAll(O)},
  visibleValues: std.toString(std.objectValues(O)),
  eqSelf: O == O,
}"""


def record(expr):
    r = util.eval_one(RECORD % expr, want=["typed"], fuel=3_000_000, max_stack=2000)
    return r


def rec_dict(t):
    return {k: v for k, v in t["o"]}


def check_internal(rec, what):
    """L3: the views of one object agree with each other."""
    d = rec_dict(rec)
    fields = [x for x in d["fields"]["a"]]
    fields_all = [x for x in d["fieldsAll"]["a"]]
    import json
    man = json.loads(d["json"])
    if sorted(man.keys()) != fields:
        raise Violation("views-disagree:manifest-vs-objectFields", f"{what}: manifested keys {sorted(man.keys())}, std.objectFields {fields}")
    if fields != sorted(fields) or fields_all != sorted(fields_all):
        raise Violation("views-disagree:unsorted", f"{what}: objectFields {fields} / objectFieldsAll {fields_all} not sorted")
    if V.h2f(d["length"]["n"]) != len(fields):
        raise Violation("views-disagree:length", f"{what}: std.length {V.h2f(d['length']['n'])}, {len(fields)} visible fields")
    if not set(fields) <= set(fields_all):
        raise Violation("views-disagree:visible-not-in-all", f"{what}: visible {fields} not a subset of all {fields_all}")
    has = rec_dict(d["has"])
    for n, triple in has.items():
        i, h, ha = triple["a"]
        if i != (n in fields_all) or ha != (n in fields_all):
            raise Violation("views-disagree:in-vs-objectFieldsAll", f"{what}: {n!r} in O = {i}, objectHasAll = {ha}, objectFieldsAll = {fields_all}")
        if h != (n in fields):
            raise Violation("views-disagree:objectHas-vs-objectFields", f"{what}: std.objectHas(O, {n!r}) = {h} but std.objectFields(O) = {fields} (manifested keys {sorted(man.keys())})")
    vals = rec_dict(d["values"])
    if sorted(vals.keys()) != fields_all:
        raise Violation("views-disagree:values", f"{what}: values for {sorted(vals.keys())}, objectFieldsAll {fields_all}")
    return fields, fields_all


def bracketings(exprs, choose):
    """One random bracketing of the chain (choose(n) -> int)."""
    es = list(exprs)
    while len(es) > 1:
        i = choose(len(es) - 1)
        es[i:i + 2] = ["(" + es[i] + " + " + es[i + 1] + ")"]
    return es[0]


def ser(m):
    """JSON-serialisable form of a layer model."""
    if m.get("chain"):
        return {"chain": [ser(x) for x in m["chain"]], "features": sorted(m["features"])}
    return {"fields": m["fields"], "features": sorted(m["features"])}


@st.composite
def chain_case(draw):
    n = draw(st.integers(2, 5))
    layers = [draw(layer()) for _ in range(n)]
    return {"layers": [[s, ser(m)] for s, m in layers], "picks": draw(st.lists(st.integers(0, 100), min_size=12, max_size=12))}


def norm_model(m):
    if m.get("chain"):
        return {"chain": [norm_model(x) for x in m["chain"]], "features": set(m["features"])}
    return {"fields": m["fields"], "removed": [], "features": set(m["features"])}


def check_chain(case):
    srcs = [s for s, _ in case["layers"]]
    models = [norm_model(m) for _, m in case["layers"]]
    picks = list(case["picks"])

    def choose(n):
        v = picks.pop(0) if picks else 0
        return v % n

    left = srcs[0]
    for s in srcs[1:]:
        left = "(" + left + " + " + s + ")"
    right = srcs[-1]
    for s in reversed(srcs[:-1]):
        right = "(" + s + " + " + right + ")"
    variants = [("left-nested", left), ("right-nested", right), ("random-bracketing", bracketings(srcs, choose)),
                ("{} + chain", "({} + " + left + ")"), ("chain + {}", "(" + right + " + {})"),
                ("through a local", "(local x = " + srcs[0] + "; x + " + " + ".join(srcs[1:]) + ")")]
    # operands that are complete objects on their own are used (manifested) first and combined afterwards: whatever an object
    # remembers from its own use (checked assertions, per-layer environments, field caches) must not leak into the combination
    alone = util.eval_exprs([f"std.toString({s_})" for s_ in srcs], want=["typed"], fuel=1_000_000, max_stack=2000)
    usable = [i for i, r_ in enumerate(alone) if util.is_ok(r_)]
    if usable:
        names = [f"op{i}" for i in range(len(srcs))]
        binds = ", ".join(f"{n} = {s_}" for n, s_ in zip(names, srcs))
        pre = " + ".join(f"std.length(std.toString({names[i]}))" for i in usable)
        variants.append(("operands used first", f"(local {binds}; if {pre} >= 0 then {' + '.join(names)} else null)"))
        rn = names[-1]
        for nm in reversed(names[:-1]):
            rn = "(" + nm + " + " + rn + ")"
        variants.append(("operands used first, right-nested", f"(local {binds}; if {pre} >= 0 then {rn} else null)"))
    recs = []
    for name, e in variants:
        r = record(e)
        if "ok" not in r:
            if r["err"].get("variant") == "AssertFailed" and any("assert-mixin" in m["features"] for m in models):
                # a validation mixin rejects the final object: every variant must be rejected with the same message
                recs.append((name, e, {"o": [["assert-failed", r["err"]["detail"]["message"]]]}))
                continue
            raise Violation("chain-fails", f"{name}: inspecting {e[:500]} failed: {r['err'].get('variant')} {r['err'].get('detail')}")
        recs.append((name, e, util.typed(r)))
    base = recs[0]
    for name, e, rec in recs[1:]:
        if rec != base[2]:
            d0, d1 = rec_dict(base[2]), rec_dict(rec)
            diff = [k for k in sorted(set(d0) | set(d1)) if d0.get(k) != d1.get(k)]
            sig = "identity" if "{}" in name else ("operand-use-leaks" if "used first" in name else "associativity" if "nested" in name or "bracketing" in name else "sharing")
            raise Violation(f"{sig}:{diff[0] if diff else '?'}", f"{base[0]} and {name} differ in {diff}: {base[1][:400]} gives {str(d0.get(diff[0]))[:200]}, {e[:400]} gives {str(d1.get(diff[0]))[:200]}")
    if rec_dict(base[2]).get("assert-failed") is not None:
        return {"nontrivial": True, "labels": ["assert-mixin-fails"], "sample": left[:400]}
    fields, fields_all = check_internal(base[2], left[:500])
    # L4: visibility computed from the chain
    exp = expected_visibility(models)
    if sorted(exp) != fields_all:
        raise Violation("existence", f"{left[:500]}: fields {fields_all}, the chain defines {sorted(exp)}")
    exp_visible = sorted(n for n, v in exp.items() if v == "visible")
    if exp_visible != fields:
        raise Violation("visibility", f"{left[:500]}: visible fields {fields}, the :, ::, ::: rules give {exp_visible}")
    feats = set()
    for m in models:
        feats |= m["features"]
    multi = any(sum(1 for m in flatten(models) if n in m["fields"]) >= 2 for n in POOL)
    return {"nontrivial": bool(feats & {"super", "plus", "vis", "remove"}) and multi, "labels": sorted(feats)[:3], "sample": left[:400]}


# ---------------------------------------------------------------------------------------------
# L5: objectRemoveKey

@st.composite
def remove_case(draw):
    n = draw(st.integers(1, 3))
    layers = [draw(layer()) for _ in range(n)]
    return {"layers": [[s, ser(m)] for s, m in layers],
            "key": draw(st.sampled_from(POOL + ["zz"])), "ext": draw(st.sampled_from(["same", "plus", "super", "other", "hidden", "forced", "none"])),
            "extval": draw(st.integers(1, 9))}


def check_remove(case):
    srcs = [s for s, _ in case["layers"]]
    models = [norm_model(m) for _, m in case["layers"]]
    k = case["key"]
    obj = "(" + " + ".join(srcs) + ")"
    r0 = record(obj)
    if "ok" not in r0:
        if r0["err"].get("variant") == "AssertFailed" and any("assert-mixin" in m["features"] for m in models):
            return {"labels": ["assert-mixin-fails"]}
        raise Violation("chain-fails", f"inspecting {obj[:500]} failed: {r0['err']}")
    before = rec_dict(util.typed(r0))
    removed = f"std.objectRemoveKey({obj}, {JS(k)})"
    r1 = record(removed)
    if "ok" not in r1 and r1["err"].get("variant") == "AssertFailed" and any("assert-mixin" in m["features"] for m in models):
        return {"labels": ["assert-mixin-fails-after-removal"]}
    if "ok" not in r1:
        raise Violation("remove-fails", f"inspecting {removed[:500]} failed: {r1['err'].get('variant')} {r1['err'].get('detail')}")
    fields, fields_all = check_internal(util.typed(r1), removed[:500])
    after = rec_dict(util.typed(r1))
    b_all = before["fieldsAll"]["a"]
    b_vis = before["fields"]["a"]
    if fields_all != [n for n in b_all if n != k]:
        raise Violation("remove-wrong-fields", f"{removed[:500]}: all fields {fields_all}, expected {[n for n in b_all if n != k]}")
    if fields != [n for n in b_vis if n != k]:
        raise Violation("remove-changes-visibility", f"{removed[:500]}: visible fields {fields}, expected {[n for n in b_vis if n != k]}")
    # values of fields that cannot read k (names smaller than k read only smaller names) are unchanged
    bv, av = rec_dict(before["values"]), rec_dict(after["values"])
    for n in fields_all:
        if n < k and bv[n] != av[n]:
            raise Violation("remove-changes-value", f"{removed[:500]}: field {n!r} was {bv[n]!r}, now {av[n]!r} although it cannot read {k!r}")
    # extension of the result
    ext = case["ext"]
    v = case["extval"]
    extra = {"same": f"{{{k}: {v}}}", "plus": f"{{{k}+: {v}}}", "super": f"{{x: if {JS(k)} in super then super[{JS(k)}] else 'gone'}}", "other": f"{{y: {v}}}",
             "hidden": f"{{{k}:: {v}}}", "forced": f"{{{k}::: {v}}}", "none": None}[ext]
    nt = k in b_all
    if extra is not None:
        e2 = f"({removed} + {extra})"
        r2 = record(e2)
        if "ok" not in r2 and r2["err"].get("variant") == "AssertFailed" and any("assert-mixin" in m["features"] for m in models):
            return {"labels": ["assert-mixin-fails-after-extension"]}
        if "ok" not in r2:
            raise Violation("remove-extend-fails", f"inspecting {e2[:500]} failed: {r2['err'].get('variant')} {r2['err'].get('detail')}")
        f2, fa2 = check_internal(util.typed(r2), e2[:500])
        d2 = rec_dict(util.typed(r2))
        vals2 = rec_dict(d2["values"])
        if ext in ("same", "plus", "forced"):
            # the removed field is gone: a new definition is visible with exactly the new value (+: has nothing to add to)
            if k not in f2:
                raise Violation("remove-then-define:not-visible", f"{e2[:500]}: {k!r} was removed and defined again with default visibility but is not visible: fields {f2}, all {fa2}")
            if vals2[k] != str(v):
                raise Violation("remove-then-define:value", f"{e2[:500]}: {k!r} = {vals2[k]!r}, expected {v} (the removed field must not contribute)")
        elif ext == "hidden":
            if k in f2 or k not in fa2:
                raise Violation("remove-then-define:hidden", f"{e2[:500]}: {k!r} defined with :: after removal: visible {f2}, all {fa2}")
        elif ext == "super":
            if vals2.get("x") != "gone":
                raise Violation("remove-then-super", f"{e2[:500]}: super still sees the removed field {k!r}: x = {vals2.get('x')!r}")
        else:
            if f2 != sorted(set(fields) | {"y"}):
                raise Violation("remove-extend-fields", f"{e2[:500]}: visible fields {f2}, expected {sorted(set(fields) | {'y'})}")
    return {"nontrivial": nt, "labels": [ext, "present" if nt else "absent"], "sample": (removed + (" + " + extra if extra else ""))[:400]}


CHECKS = [
    Check("chains_and_views", check_chain, chain_case, quick=400, thorough=6000),
    Check("object_remove_key", check_remove, remove_case, quick=300, thorough=6000),
]
