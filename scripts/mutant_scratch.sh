#!/bin/bash
# scripts/mutant_scratch.sh <patch-file> <Cxx> [tier]
# Like mutant.sh but on a scratch worktree of /repo HEAD under /tmp/mut (so /repo stays untouched and other checks
# can run meanwhile). Only for the author's sensitivity testing; registered checks always build from /repo.
set -u
patch="$(realpath "$1")"; prop="$2"; tier="${3:-quick}"
slot="${MUT_SLOT:-0}"
base=/tmp/mut/$slot; wt=$base/wt
mkdir -p $base
head=$(git -C /repo rev-parse HEAD)
if [ ! -d $wt ]; then git -C /repo worktree add -q --detach $wt $head || exit 2; fi
git -C $wt checkout -q --detach $head && git -C $wt checkout -q -- . || exit 2
git -C $wt apply "$patch" || { echo "patch does not apply"; exit 2; }
rsync -a --delete --exclude target /verif/engine/ $base/engine/
sed -i "s|/repo/rsjsonnet-|$wt/rsjsonnet-|g" $base/engine/Cargo.toml
( cd $base/engine && CARGO_NET_OFFLINE=true CARGO_TARGET_DIR=$base/engine-target cargo build --offline > $base/engine.log 2>&1 ) || { echo "BUILD-FAILED engine"; tail -20 $base/engine.log; git -C $wt checkout -q -- .; exit 2; }
( cd $wt && CARGO_NET_OFFLINE=true cargo build --offline -p rsjsonnet --target-dir $base/cli-target > $base/cli.log 2>&1 ) || { echo "BUILD-FAILED cli"; tail -20 $base/cli.log; git -C $wt checkout -q -- .; exit 2; }
cd /verif
RSJV_ENGINE_BIN=$base/engine-target/debug/rsjv RSJV_CLI_BIN=$base/cli-target/debug/rsjsonnet VERIF_SKIP_BUILD=1 VERIF_NO_SAVE=1 \
  VERIF_EVIDENCE_DIR=$base/evidence ./run "$prop" "$tier" > $base/run.log 2>&1
rc=$?
git -C $wt checkout -q -- .
grep -E "^VIOLATION|^  signature|^C[0-9]+ |BUILD-FAILED|INCONCLUSIVE" $base/run.log | head -12
echo "exit=$rc"
exit $rc
