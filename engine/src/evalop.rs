//! Evaluation requests: `eval`, `evalmany`, `session`, `value`.

use std::collections::HashMap;

use rsjsonnet_lang::arena::Arena;
use rsjsonnet_lang::interner::InternedStr;
use rsjsonnet_lang::program::{
    Callbacks, EvalStackTraceItem, ImportError, NativeError, Program, Thunk, Value, ValueKind,
    VerifGcMode,
};
use rsjsonnet_lang::span::{SourceId, SpanContext, SpanId};
use serde_json::{Map, Value as J, json};

use crate::dump::{SpanResolver, eval_error_to_json, hex_decode, load_error_to_json, stack_to_json};

pub struct Host<'p> {
    /// Virtual file system: name -> bytes.
    files: HashMap<String, Vec<u8>>,
    /// Source index (as reported in spans) -> (name, length).
    pub sources: Vec<(String, usize)>,
    source_names: HashMap<SourceId, String>,
    cache: HashMap<String, Thunk<'p>>,
    pub traces: Vec<J>,
    want_trace_stack: bool,
    pub imports_loaded: Vec<String>,
}

impl<'p> Host<'p> {
    pub fn new(program: &Program<'p>) -> Self {
        let (_, stdlib) = program.get_stdlib_source();
        Self {
            files: HashMap::new(),
            sources: vec![("<stdlib>".into(), stdlib.len())],
            source_names: HashMap::new(),
            cache: HashMap::new(),
            traces: Vec::new(),
            want_trace_stack: false,
            imports_loaded: Vec::new(),
        }
    }

    pub fn add_file(&mut self, name: &str, data: Vec<u8>) {
        self.files.insert(name.into(), data);
    }

    pub fn load(
        &mut self,
        program: &mut Program<'p>,
        name: &str,
        data: &[u8],
    ) -> Result<Thunk<'p>, J> {
        let (ctx, src) = program.span_manager_mut().insert_source_context(data.len());
        self.sources.push((name.into(), data.len()));
        self.source_names.insert(src, name.into());
        match program.load_source(ctx, data, true, name) {
            Ok(t) => Ok(t),
            Err(e) => {
                let r = SpanResolver {
                    mgr: program.span_manager(),
                };
                Err(load_error_to_json(&r, &e))
            }
        }
    }

    fn resolve(&self, program: &Program<'p>, from: SpanId, path: &str) -> Option<String> {
        if path.starts_with('/') {
            return self.files.contains_key(path).then(|| path.to_string());
        }
        let (ctx, _, _) = program.span_manager().get_span(from);
        let SpanContext::Source(src) = program.span_manager().get_context(ctx);
        if let Some(from_name) = self.source_names.get(src) {
            if let Some(pos) = from_name.rfind('/') {
                let cand = format!("{}/{}", &from_name[..pos], path);
                if self.files.contains_key(&cand) {
                    return Some(cand);
                }
            }
        }
        self.files.contains_key(path).then(|| path.to_string())
    }
}

impl<'p> Callbacks<'p> for Host<'p> {
    fn import(&mut self, program: &mut Program<'p>, from: SpanId, path: &str) -> Result<Thunk<'p>, ImportError> {
        let Some(full) = self.resolve(program, from, path) else {
            return Err(ImportError);
        };
        if let Some(t) = self.cache.get(&full) {
            return Ok(t.clone());
        }
        let data = self.files.get(&full).unwrap().clone();
        self.imports_loaded.push(full.clone());
        match self.load(program, &full, &data) {
            Ok(t) => {
                self.cache.insert(full, t.clone());
                Ok(t)
            }
            Err(e) => {
                self.traces.push(json!({"import_load_error": e, "path": full}));
                Err(ImportError)
            }
        }
    }

    fn import_str(&mut self, program: &mut Program<'p>, from: SpanId, path: &str) -> Result<String, ImportError> {
        let Some(full) = self.resolve(program, from, path) else {
            return Err(ImportError);
        };
        Ok(String::from_utf8_lossy(&self.files[&full]).into_owned())
    }

    fn import_bin(&mut self, program: &mut Program<'p>, from: SpanId, path: &str) -> Result<Vec<u8>, ImportError> {
        let Some(full) = self.resolve(program, from, path) else {
            return Err(ImportError);
        };
        Ok(self.files[&full].clone())
    }

    fn trace(&mut self, program: &mut Program<'p>, message: &str, stack: &[EvalStackTraceItem]) {
        if self.want_trace_stack {
            let r = SpanResolver {
                mgr: program.span_manager(),
            };
            self.traces.push(json!({"msg": message, "stack": stack_to_json(&r, stack)}));
        } else {
            self.traces.push(json!(message));
        }
    }

    fn native_call(
        &mut self,
        _program: &mut Program<'p>,
        _name: InternedStr<'p>,
        _args: &[Value<'p>],
    ) -> Result<Value<'p>, NativeError> {
        Err(NativeError)
    }
}

pub fn f64_to_hex(x: f64) -> String {
    format!("{:016x}", x.to_bits())
}

pub fn typed_value(v: &Value<'_>, depth: usize) -> J {
    if depth > 400 {
        return json!({"deep": true});
    }
    match v.kind() {
        ValueKind::Null => J::Null,
        ValueKind::Bool(b) => json!(b),
        ValueKind::Number(n) => json!({"n": f64_to_hex(n)}),
        ValueKind::String(s) => json!(s),
        ValueKind::Array(items) => {
            json!({"a": items.iter().map(|i| typed_value(i, depth + 1)).collect::<Vec<_>>()})
        }
        ValueKind::Object(fields) => json!({
            "o": fields.iter().map(|(k, v)| json!([k.value(), typed_value(v, depth + 1)])).collect::<Vec<_>>()
        }),
        ValueKind::Function => json!({"f": true}),
    }
}

/// Builds a `Value` from its typed JSON form through the public constructors.
pub fn build_value<'p>(program: &mut Program<'p>, j: &J) -> Result<Value<'p>, String> {
    match j {
        J::Null => Ok(Value::null()),
        J::Bool(b) => Ok(Value::bool(*b)),
        J::String(s) => Ok(Value::string(s)),
        J::Object(m) => {
            if let Some(n) = m.get("n") {
                let bits = u64::from_str_radix(n.as_str().ok_or("n not str")?, 16).map_err(|e| e.to_string())?;
                Ok(Value::number(f64::from_bits(bits)))
            } else if let Some(a) = m.get("a") {
                let mut items = Vec::new();
                for i in a.as_array().ok_or("a not array")? {
                    items.push(build_value(program, i)?);
                }
                Ok(program.make_array(&items))
            } else if let Some(o) = m.get("o") {
                let mut fields = Vec::new();
                for kv in o.as_array().ok_or("o not array")? {
                    let k = kv[0].as_str().ok_or("key not str")?;
                    let v = build_value(program, &kv[1])?;
                    fields.push((program.intern_str(k), v));
                }
                Ok(program.make_object(&fields))
            } else {
                Err("bad typed value".into())
            }
        }
        _ => Err("bad typed value".into()),
    }
}

fn gc_mode_from_json(j: Option<&J>) -> VerifGcMode {
    let Some(j) = j else {
        return VerifGcMode::Default;
    };
    match j.get("mode").and_then(J::as_str).unwrap_or("default") {
        "never" => VerifGcMode::Never,
        "every" => VerifGcMode::Every(j.get("n").and_then(J::as_u64).unwrap_or(1)),
        "seeded" => VerifGcMode::Seeded {
            seed: j.get("seed").and_then(J::as_u64).unwrap_or(1),
            one_in: j.get("one_in").and_then(J::as_u64).unwrap_or(10),
        },
        _ => VerifGcMode::Default,
    }
}

pub struct Config {
    pub max_stack: Option<usize>,
    pub fuel: Option<u64>,
}

fn file_bytes(j: &J) -> Result<Vec<u8>, String> {
    // Either {"hex": "..."} or a plain string (UTF-8 text).
    match j {
        J::String(s) => Ok(s.as_bytes().to_vec()),
        J::Object(m) => hex_decode(m.get("hex").and_then(J::as_str).ok_or("missing hex")?),
        _ => Err("bad file".into()),
    }
}

fn sources_json(host: &Host<'_>) -> J {
    J::Array(host.sources.iter().map(|(n, l)| json!([n, l])).collect())
}

/// Sets up a program from the request: files, ext vars, limits, gc mode.
fn setup<'p>(program: &mut Program<'p>, host: &mut Host<'p>, req: &J) -> Result<(), J> {
    if let Some(files) = req.get("files").and_then(J::as_object) {
        for (name, data) in files {
            host.add_file(name, file_bytes(data).map_err(|e| json!({"bad_request": e}))?);
        }
    }
    host.want_trace_stack = req.get("trace_stack").and_then(J::as_bool).unwrap_or(false);
    if let Some(ms) = req.get("max_stack").and_then(J::as_u64) {
        program.set_max_stack(ms as usize);
    }
    if let Some(exts) = req.get("ext").and_then(J::as_array) {
        for ext in exts {
            let name = ext["name"].as_str().unwrap_or("");
            let val = ext["val"].as_str().unwrap_or("");
            let iname = program.intern_str(name);
            let thunk = if ext["kind"].as_str() == Some("code") {
                host.load(program, &format!("<ext:{name}>"), val.as_bytes())
                    .map_err(|e| json!({"err": e, "where": "ext"}))?
            } else {
                program.value_to_thunk(&Value::string(val))
            };
            program.add_ext_var(iname, &thunk);
        }
    }
    program.verif_set_gc_mode(gc_mode_from_json(req.get("gc")));
    Ok(())
}

fn tlas<'p>(program: &mut Program<'p>, host: &mut Host<'p>, req: &J) -> Result<Vec<(InternedStr<'p>, Thunk<'p>)>, J> {
    let mut out = Vec::new();
    if let Some(tl) = req.get("tla").and_then(J::as_array) {
        for t in tl {
            let name = t["name"].as_str().unwrap_or("");
            let val = t["val"].as_str().unwrap_or("");
            let iname = program.intern_str(name);
            let thunk = if t["kind"].as_str() == Some("code") {
                host.load(program, &format!("<tla:{name}>"), val.as_bytes())
                    .map_err(|e| json!({"err": e, "where": "tla"}))?
            } else {
                program.value_to_thunk(&Value::string(val))
            };
            out.push((iname, thunk));
        }
    }
    Ok(out)
}

fn wants(req: &J, what: &str) -> bool {
    match req.get("want").and_then(J::as_array) {
        Some(a) => a.iter().any(|w| w.as_str() == Some(what)),
        None => what == "multi",
    }
}

fn err_json(program: &Program<'_>, e: &rsjsonnet_lang::program::EvalError, phase: &str) -> J {
    let r = SpanResolver {
        mgr: program.span_manager(),
    };
    let mut j = eval_error_to_json(&r, e, phase);
    if program.verif_fuel_exhausted() {
        j = json!({"fuel": true, "phase": phase});
    }
    j
}

fn finish(program: &Program<'_>, host: &mut Host<'_>, mut out: Map<String, J>, req: &J) -> J {
    out.insert("traces".into(), J::Array(std::mem::take(&mut host.traces)));
    if program.verif_gc_overcounts() > 0 {
        out.insert("gc_overcounts".into(), json!(program.verif_gc_overcounts()));
    }
    if wants(req, "counters") {
        out.insert("gc_runs".into(), json!(program.verif_gc_runs()));
        out.insert("gc_freed".into(), json!(program.verif_gc_freed()));
        out.insert("objs".into(), json!(program.verif_num_objects()));
        out.insert("fuel_left".into(), json!(program.verif_fuel_left()));
    }
    if wants(req, "sources") {
        out.insert("sources".into(), sources_json(host));
    }
    if wants(req, "imports") {
        out.insert("imports".into(), json!(host.imports_loaded));
    }
    J::Object(out)
}

/// Evaluates `thunk` like the command-line tool: evaluate, call with TLAs if it is
/// a function, then manifest.
fn eval_and_manifest<'p>(
    program: &mut Program<'p>,
    host: &mut Host<'p>,
    thunk: &Thunk<'p>,
    tla: &[(InternedStr<'p>, Thunk<'p>)],
    req: &J,
    out: &mut Map<String, J>,
) {
    program.verif_set_fuel(req.get("fuel").and_then(J::as_u64));
    let mut value = match program.eval_value(thunk, host) {
        Ok(v) => v,
        Err(e) => {
            out.insert("err".into(), err_json(program, &e, "eval"));
            return;
        }
    };
    let apply = req.get("apply_tla").and_then(J::as_bool).unwrap_or(true);
    if value.is_function() && apply {
        let ft = program.value_to_thunk(&value);
        value = match program.eval_call(&ft, &[], tla, host) {
            Ok(v) => v,
            Err(e) => {
                out.insert("err".into(), err_json(program, &e, "call"));
                return;
            }
        };
    } else if !tla.is_empty() && apply {
        out.insert("err".into(), json!({"phase": "tla", "variant": "RootNotFunction", "spans": [], "detail": null}));
        return;
    }
    let mut ok = Map::new();
    if wants(req, "kind") || wants(req, "typed") {
        ok.insert(
            "kind".into(),
            json!(if value.is_null() {
                "null"
            } else if value.is_bool() {
                "boolean"
            } else if value.is_number() {
                "number"
            } else if value.is_string() {
                "string"
            } else if value.is_array() {
                "array"
            } else if value.is_object() {
                "object"
            } else {
                "function"
            }),
        );
    }
    if wants(req, "multi") {
        match program.manifest_json(&value, true) {
            Ok(s) => {
                ok.insert("multi".into(), json!(s));
            }
            Err(e) => {
                out.insert("err".into(), err_json(program, &e, "manifest"));
                return;
            }
        }
    }
    if wants(req, "single") {
        match program.manifest_json(&value, false) {
            Ok(s) => {
                ok.insert("single".into(), json!(s));
            }
            Err(e) => {
                out.insert("err".into(), err_json(program, &e, "manifest"));
                return;
            }
        }
    }
    if wants(req, "typed") {
        ok.insert("typed".into(), typed_value(&value, 0));
    }
    out.insert("ok".into(), J::Object(ok));
}

pub fn op_eval(req: &J) -> J {
    let arena = Arena::new();
    let mut program = Program::new(&arena);
    let mut host = Host::new(&program);
    let mut out = Map::new();
    if let Err(e) = setup(&mut program, &mut host, req) {
        return e;
    }
    let tla = match tlas(&mut program, &mut host, req) {
        Ok(t) => t,
        Err(e) => return e,
    };
    let main_name = req.get("main").and_then(J::as_str).unwrap_or("main").to_string();
    let data = if let Some(src) = req.get("src") {
        match file_bytes(src) {
            Ok(d) => d,
            Err(e) => return json!({"bad_request": e}),
        }
    } else {
        match host.files.get(&main_name) {
            Some(d) => d.clone(),
            None => return json!({"bad_request": "no main"}),
        }
    };
    match host.load(&mut program, &main_name, &data) {
        Ok(thunk) => {
            eval_and_manifest(&mut program, &mut host, &thunk, &tla, req, &mut out);
        }
        Err(e) => {
            out.insert("err".into(), e);
        }
    }
    finish(&program, &mut host, out, req)
}

/// Many expressions, each on a fresh `Program` (or all on one shared `Program`).
pub fn op_evalmany(req: &J) -> J {
    let exprs: Vec<J> = req.get("exprs").and_then(J::as_array).cloned().unwrap_or_default();
    let shared = req.get("shared").and_then(J::as_bool).unwrap_or(false);
    let mut results = Vec::new();
    if shared {
        let arena = Arena::new();
        let mut program = Program::new(&arena);
        let mut host = Host::new(&program);
        if let Err(e) = setup(&mut program, &mut host, req) {
            return e;
        }
        for (i, ex) in exprs.iter().enumerate() {
            let mut out = Map::new();
            let data = file_bytes(ex).unwrap_or_default();
            match host.load(&mut program, &format!("e{i}"), &data) {
                Ok(thunk) => eval_and_manifest(&mut program, &mut host, &thunk, &[], req, &mut out),
                Err(e) => {
                    out.insert("err".into(), e);
                }
            }
            out.insert("traces".into(), J::Array(std::mem::take(&mut host.traces)));
            results.push(J::Object(out));
        }
    } else {
        for ex in exprs.iter() {
            let mut sub = req.clone();
            let m = sub.as_object_mut().unwrap();
            m.remove("exprs");
            m.insert("src".into(), ex.clone());
            results.push(op_eval(&sub));
        }
    }
    json!({"results": results})
}

/// A typed value built through the API and handed to a Jsonnet function.
pub fn op_value(req: &J) -> J {
    let arena = Arena::new();
    let mut program = Program::new(&arena);
    let mut host = Host::new(&program);
    if let Err(e) = setup(&mut program, &mut host, req) {
        return e;
    }
    let value = match build_value(&mut program, &req["value"]) {
        Ok(v) => v,
        Err(e) => return json!({"bad_request": e}),
    };
    let mut results = Vec::new();
    // Direct manifestation through the API.
    if wants(req, "api") {
        for (key, ml) in [("api_multi", true), ("api_single", false)] {
            let mut out = Map::new();
            match program.manifest_json(&value, ml) {
                Ok(s) => {
                    out.insert("ok".into(), json!({ "text": s }));
                }
                Err(e) => {
                    out.insert("err".into(), err_json(&program, &e, "manifest"));
                }
            }
            out.insert("name".into(), json!(key));
            results.push(J::Object(out));
        }
    }
    let vthunk = program.value_to_thunk(&value);
    if let Some(codes) = req.get("codes").and_then(J::as_array) {
        for (i, code) in codes.iter().enumerate() {
            let mut out = Map::new();
            let src = code.as_str().unwrap_or("");
            match host.load(&mut program, &format!("code{i}"), src.as_bytes()) {
                Ok(f) => {
                    program.verif_set_fuel(req.get("fuel").and_then(J::as_u64));
                    match program.eval_call(&f, &[vthunk.clone()], &[], &mut host) {
                        Ok(v) => {
                            out.insert("ok".into(), json!({"typed": typed_value(&v, 0)}));
                        }
                        Err(e) => {
                            out.insert("err".into(), err_json(&program, &e, "eval"));
                        }
                    }
                }
                Err(e) => {
                    out.insert("err".into(), e);
                }
            }
            results.push(J::Object(out));
        }
    }
    json!({"results": results, "traces": host.traces})
}

/// A history of requests on one long-lived `Program`.
pub fn op_session(req: &J) -> J {
    let arena = Arena::new();
    let mut program = Program::new(&arena);
    let mut host = Host::new(&program);
    if let Err(e) = setup(&mut program, &mut host, req) {
        return e;
    }
    let pool: Vec<Vec<u8>> = req
        .get("pool")
        .and_then(J::as_array)
        .map(|a| a.iter().map(|s| file_bytes(s).unwrap_or_default()).collect())
        .unwrap_or_default();
    let mut thunks: Vec<Option<Thunk<'_>>> = Vec::new();
    let mut values: Vec<Option<Value<'_>>> = Vec::new();
    let mut results = Vec::new();
    let steps: Vec<J> = req.get("steps").and_then(J::as_array).cloned().unwrap_or_default();
    let fuel = req.get("fuel").and_then(J::as_u64);
    for step in steps.iter() {
        let op = step[0].as_str().unwrap_or("");
        let mut out = Map::new();
        match op {
            "load" => {
                let i = step[1].as_u64().unwrap_or(0) as usize;
                let name = format!("src{i}_{}", thunks.len());
                match pool.get(i) {
                    Some(data) => match host.load(&mut program, &name, data) {
                        Ok(t) => {
                            thunks.push(Some(t));
                            out.insert("ok".into(), json!({"thunk": thunks.len() - 1}));
                        }
                        Err(e) => {
                            thunks.push(None);
                            out.insert("err".into(), e);
                        }
                    },
                    None => {
                        thunks.push(None);
                        out.insert("skip".into(), json!("no such source"));
                    }
                }
            }
            "eval" => {
                let i = step[1].as_u64().unwrap_or(0) as usize;
                match thunks.get(i).and_then(|t| t.clone()) {
                    Some(t) => {
                        program.verif_set_fuel(fuel);
                        match program.eval_value(&t, &mut host) {
                            Ok(v) => {
                                let kind = if v.is_function() { "function" } else { "value" };
                                values.push(Some(v));
                                out.insert("ok".into(), json!({"value": values.len() - 1, "kind": kind}));
                            }
                            Err(e) => {
                                values.push(None);
                                out.insert("err".into(), err_json(&program, &e, "eval"));
                            }
                        }
                    }
                    None => {
                        values.push(None);
                        out.insert("skip".into(), json!("no such thunk"));
                    }
                }
            }
            "call" => {
                let i = step[1].as_u64().unwrap_or(0) as usize;
                let pos: Vec<usize> = step[2]
                    .as_array()
                    .map(|a| a.iter().map(|x| x.as_u64().unwrap_or(0) as usize).collect())
                    .unwrap_or_default();
                let named: Vec<(String, usize)> = step[3]
                    .as_array()
                    .map(|a| {
                        a.iter()
                            .map(|x| (x[0].as_str().unwrap_or("").to_string(), x[1].as_u64().unwrap_or(0) as usize))
                            .collect()
                    })
                    .unwrap_or_default();
                let f = thunks.get(i).and_then(|t| t.clone());
                let pos_t: Option<Vec<Thunk<'_>>> =
                    pos.iter().map(|&k| thunks.get(k).and_then(|t| t.clone())).collect();
                let named_t: Option<Vec<(InternedStr<'_>, Thunk<'_>)>> = named
                    .iter()
                    .map(|(n, k)| thunks.get(*k).and_then(|t| t.clone()).map(|t| (program.intern_str(n), t)))
                    .collect();
                match (f, pos_t, named_t) {
                    (Some(f), Some(p), Some(n)) => {
                        program.verif_set_fuel(fuel);
                        match program.eval_call(&f, &p, &n, &mut host) {
                            Ok(v) => {
                                values.push(Some(v));
                                out.insert("ok".into(), json!({"value": values.len() - 1}));
                            }
                            Err(e) => {
                                values.push(None);
                                out.insert("err".into(), err_json(&program, &e, "call"));
                            }
                        }
                    }
                    _ => {
                        values.push(None);
                        out.insert("skip".into(), json!("missing thunk"));
                    }
                }
            }
            "manifest" => {
                let i = step[1].as_u64().unwrap_or(0) as usize;
                let ml = step[2].as_bool().unwrap_or(true);
                match values.get(i).and_then(|v| v.clone()) {
                    Some(v) => {
                        program.verif_set_fuel(fuel);
                        match program.manifest_json(&v, ml) {
                            Ok(s) => {
                                out.insert("ok".into(), json!({"text": s}));
                            }
                            Err(e) => {
                                out.insert("err".into(), err_json(&program, &e, "manifest"));
                            }
                        }
                    }
                    None => {
                        out.insert("skip".into(), json!("no such value"));
                    }
                }
            }
            "thunk_of_value" => {
                let i = step[1].as_u64().unwrap_or(0) as usize;
                match values.get(i).and_then(|v| v.clone()) {
                    Some(v) => {
                        let t = program.value_to_thunk(&v);
                        thunks.push(Some(t));
                        out.insert("ok".into(), json!({"thunk": thunks.len() - 1}));
                    }
                    None => {
                        thunks.push(None);
                        out.insert("skip".into(), json!("no such value"));
                    }
                }
            }
            "gc" => {
                program.gc();
                out.insert("ok".into(), json!({"objs": program.verif_num_objects()}));
            }
            "stack" => {
                program.set_max_stack(step[1].as_u64().unwrap_or(500) as usize);
                out.insert("ok".into(), J::Null);
            }
            "gcmode" => {
                program.verif_set_gc_mode(gc_mode_from_json(Some(&step[1])));
                out.insert("ok".into(), J::Null);
            }
            "drop_values" => {
                values.iter_mut().for_each(|v| *v = None);
                out.insert("ok".into(), J::Null);
            }
            "drop_thunks" => {
                thunks.iter_mut().for_each(|v| *v = None);
                out.insert("ok".into(), J::Null);
            }
            "drop_cache" => {
                host.cache.clear();
                out.insert("ok".into(), J::Null);
            }
            "objs" => {
                out.insert("ok".into(), json!({"objs": program.verif_num_objects()}));
            }
            _ => {
                out.insert("skip".into(), json!("unknown op"));
            }
        }
        out.insert("traces".into(), J::Array(std::mem::take(&mut host.traces)));
        results.push(J::Object(out));
    }
    json!({"results": results, "sources": sources_json(&host), "gc_runs": program.verif_gc_runs(), "gc_overcounts": program.verif_gc_overcounts()})
}
