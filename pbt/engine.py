"""Client for the rsjv engine (one subprocess per worker) and helper to run the real CLI."""
import json
import os
import select
import subprocess
import tempfile

ROOT = os.path.dirname(os.path.dirname(os.path.abspath(__file__)))
# The registered commands always use the binaries rebuilt from /repo; the overrides exist for scratch-copy mutant runs.
ENGINE_BIN = os.environ.get("RSJV_ENGINE_BIN") or os.path.join(ROOT, ".build", "engine-target", "debug", "rsjv")
CLI_BIN = os.environ.get("RSJV_CLI_BIN") or os.path.join(ROOT, ".build", "cli-target", "debug", "rsjsonnet")


class Inconclusive(Exception):
    """Infrastructure problem (timeout, engine cannot start): exit 2, never a violation."""


class EngineDied(Exception):
    """The engine process died while answering a request (abort, stack overflow, OOM)."""

    def __init__(self, status, stderr):
        super().__init__(f"engine died status={status}")
        self.status = status
        self.stderr = stderr


class Engine:
    def __init__(self, wall_limit=240.0):
        self.proc = None
        self.wall_limit = wall_limit
        self.requests = 0
        self.errf = None

    def start(self):
        if not os.path.exists(ENGINE_BIN):
            raise Inconclusive("engine binary missing")
        self.errf = tempfile.TemporaryFile()
        self.proc = subprocess.Popen(
            [ENGINE_BIN], stdin=subprocess.PIPE, stdout=subprocess.PIPE, stderr=self.errf, bufsize=0
        )
        self.buf = b""

    def close(self):
        if self.proc is not None:
            try:
                self.proc.stdin.close()
                self.proc.kill()
                self.proc.wait()
            except Exception:
                pass
            self.proc = None
        if self.errf is not None:
            self.errf.close()
            self.errf = None

    def request(self, req):
        """Sends one request; returns the decoded response.
        Raises EngineDied if the process died, Inconclusive on wall-clock timeout."""
        if self.proc is None or self.proc.poll() is not None:
            self.close()
            self.start()
        self.requests += 1
        data = (json.dumps(req) + "\n").encode()
        try:
            self.proc.stdin.write(data)
            self.proc.stdin.flush()
        except (BrokenPipeError, OSError):
            return self._died()
        fd = self.proc.stdout.fileno()
        import time

        deadline = time.monotonic() + self.wall_limit
        while b"\n" not in self.buf:
            remaining = deadline - time.monotonic()
            if remaining <= 0:
                self.close()
                raise Inconclusive("engine request exceeded wall limit")
            r, _, _ = select.select([fd], [], [], remaining)
            if not r:
                continue
            chunk = os.read(fd, 1 << 20)
            if not chunk:
                return self._died()
            self.buf += chunk
        line, self.buf = self.buf.split(b"\n", 1)
        return json.loads(line)

    def _died(self):
        status = None
        try:
            status = self.proc.wait(timeout=10)
        except Exception:
            pass
        err = b""
        try:
            self.errf.seek(0)
            err = self.errf.read()[-2000:]
        except Exception:
            pass
        self.close()
        raise EngineDied(status, err.decode("utf-8", "replace"))


_ENGINE = None


def engine():
    global _ENGINE
    if _ENGINE is None:
        _ENGINE = Engine()
    return _ENGINE


def hexsrc(b):
    return {"hex": bytes(b).hex()}


def run_cli(args, stdin=None, env=None, cwd=None, timeout=120, stdout=None, pass_fds=()):
    """Runs the real binary. Returns (returncode, stdout_bytes, stderr_bytes).
    returncode < 0 means killed by a signal."""
    e = {"PATH": os.environ.get("PATH", ""), "NO_COLOR": "1"}
    if env:
        e.update(env)
    try:
        p = subprocess.run(
            [CLI_BIN] + list(args),
            input=stdin,
            stdout=subprocess.PIPE if stdout is None else stdout,
            stderr=subprocess.PIPE,
            env=e,
            cwd=cwd,
            timeout=timeout,
            pass_fds=pass_fds,
        )
    except subprocess.TimeoutExpired:
        raise Inconclusive("cli exceeded wall limit")
    return p.returncode, (p.stdout if stdout is None else b""), p.stderr
