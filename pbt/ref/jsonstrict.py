"""Strict RFC 8259 reading into typed values (CPython json with the lenient corners closed)."""
import json
import math

from ..gen.values import f2h


class NotJson(ValueError):
    pass


def _const(name):
    raise NotJson(f"non-JSON constant {name}")


def _float(text):
    x = float(text)
    if not math.isfinite(x):
        raise NotJson(f"number out of range: {text[:40]}")
    return {"n": f2h(x)}


def _pairs(pairs):
    return {"o": [[k, v] for k, v in pairs]}


def _conv(v):
    if isinstance(v, list):
        return {"a": [_conv(x) for x in v]}
    if isinstance(v, dict) and "o" in v:
        return {"o": [[k, _conv(x)] for k, x in v["o"]]}
    return v


def loads_typed(text):
    """Typed value with object pairs in document order. Raises NotJson if text is not RFC 8259 JSON."""
    try:
        v = json.loads(text, parse_float=_float, parse_int=_float, parse_constant=_const, object_pairs_hook=_pairs)
    except NotJson:
        raise
    except (ValueError, RecursionError) as e:
        raise NotJson(str(e))
    return _conv(v)


def key_problems(v, path="$"):
    """Yields descriptions of duplicate or unsorted keys."""
    if isinstance(v, dict) and "a" in v:
        for i, x in enumerate(v["a"]):
            yield from key_problems(x, f"{path}[{i}]")
    elif isinstance(v, dict) and "o" in v:
        ks = [k for k, _ in v["o"]]
        seen = set()
        for k in ks:
            if k in seen:
                yield f"duplicate key {k!a} at {path}"
            seen.add(k)
        for a, b in zip(ks, ks[1:]):
            if a > b:
                yield f"keys out of order {a!a} > {b!a} at {path}"
        for k, x in v["o"]:
            yield from key_problems(x, f"{path}.{k}")
