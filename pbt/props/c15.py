"""C15 - parsing honours the precedence table and is stable under print and re-parse."""
from decimal import Decimal

from hypothesis import strategies as st

from ..core import Check, Violation
from .. import fuzz as _fuzz
from ..gen import ast as A
from ..gen import printer as P
from ..ref import lexer as RL
from .. import util

PROPERTY = "C15"
RULE = ("generated syntax trees over every node kind (12 slice layouts with both '::' tokenisations, in super, "
        "tailstrict, object comprehensions with locals, methods, asserts, visibilities, imports), printed with minimal / "
        "full / random redundant parentheses and tight / normal / noisy spacing, re-parsed and compared node for node "
        "(kinds, children, byte spans = first token..last token, Paren spans include the parentheses); operator trees "
        "over the 10 binary levels + unary + postfix printed minimally vs fully parenthesised; token-level mutations of "
        "valid programs whose ParseError must point at a token of the input. Non-trivial = >= 2 different binary levels, "
        "a postfix chain >= 2, a slice or an object comprehension; distinct by SHA-1 of the case")


def chooser(seq):
    """Deterministic choice source from a list of ints (cycled)."""
    state = {"i": 0}

    def choose(n):
        v = seq[state["i"] % len(seq)] if seq else 0
        state["i"] += 1
        return v % n

    return choose


def parse(text):
    return util.request({"op": "parse", "src": {"hex": text.encode("utf-8").hex()}}, what=f"parse {text[:300]!r}")


def names(ps):
    return None if ps is None else [{"name": p["name"]["name"], "default": norm(p["default"])} for p in ps]


def norm_bind(b):
    return {"name": b["name"]["name"], "params": names(b["params"]), "value": norm(b["value"])}


def norm_assert(a):
    return {"cond": norm(a["cond"]), "msg": norm(a["msg"])}


def norm_spec(spec):
    return [{"k": "for", "var": s["var"]["name"], "inner": norm(s["inner"])} if s["k"] == "for" else {"k": "if", "cond": norm(s["cond"])}
            for s in spec]


def norm_fname(n):
    if n["k"] == "expr":
        return {"k": "expr", "expr": norm(n["expr"])}
    return {"k": n["k"], "name": n["name"]}


def norm_inside(i):
    if i["k"] == "members":
        ms = []
        for m in i["members"]:
            if m["k"] == "local":
                ms.append({"k": "local", "bind": norm_bind(m["bind"])})
            elif m["k"] == "assert":
                ms.append({"k": "assert", "assert": norm_assert(m["assert"])})
            elif m["k"] == "field":
                ms.append({"k": "field", "name": norm_fname(m["name"]), "plus": m["plus"], "vis": m["vis"], "value": norm(m["value"])})
            else:
                ms.append({"k": "method", "name": norm_fname(m["name"]), "params": names(m["params"]), "vis": m["vis"], "value": norm(m["value"])})
        return {"k": "members", "members": ms}
    return {"k": "comp", "locals1": [norm_bind(b) for b in i["locals1"]], "name": norm(i["name"]), "plus": i["plus"],
            "body": norm(i["body"]), "locals2": [norm_bind(b) for b in i["locals2"]], "spec": norm_spec(i["spec"])}


def norm(n):
    """Engine AST dump -> generator tree shape (with spans)."""
    if n is None:
        return None
    k = n["k"]
    o = {"k": k, "span": n["span"]}
    if k == "bool":
        o["v"] = n["v"]
    elif k in ("string", "textblock"):
        o["v"] = n["v"]
    elif k == "number":
        o["value"] = str(Decimal(n["digits"]).scaleb(n["exp"]).normalize())
    elif k == "paren":
        o["e"] = norm(n["e"])
    elif k == "object":
        o["inside"] = norm_inside(n["inside"])
    elif k == "array":
        o["items"] = [norm(x) for x in n["items"]]
    elif k == "arraycomp":
        o["body"] = norm(n["body"])
        o["spec"] = norm_spec(n["spec"])
    elif k == "field":
        o["e"] = norm(n["e"])
        o["name"] = n["name"]["name"]
    elif k == "index":
        o["e"] = norm(n["e"])
        o["index"] = norm(n["index"])
    elif k == "slice":
        o["e"] = norm(n["e"])
        for f in ("start", "end", "step"):
            o[f] = norm(n[f])
    elif k == "superfield":
        o["name"] = n["name"]["name"]
    elif k == "superindex":
        o["index"] = norm(n["index"])
    elif k == "call":
        o["f"] = norm(n["f"])
        o["args"] = [{"name": a["name"]["name"] if a["name"] else None, "e": norm(a["e"])} for a in n["args"]]
        o["tailstrict"] = n["tailstrict"]
    elif k == "ident":
        o["name"] = n["name"]
    elif k == "local":
        o["binds"] = [norm_bind(b) for b in n["binds"]]
        o["body"] = norm(n["body"])
    elif k == "if":
        o["cond"] = norm(n["cond"])
        o["then"] = norm(n["then"])
        o["else"] = norm(n["else"])
    elif k == "binary":
        o["op"] = n["op"]
        o["l"] = norm(n["l"])
        o["r"] = norm(n["r"])
    elif k == "unary":
        o["op"] = n["op"]
        o["e"] = norm(n["e"])
    elif k == "objext":
        o["e"] = norm(n["e"])
        o["inside"] = norm_inside(n["inside"])
    elif k == "func":
        o["params"] = names(n["params"])
        o["body"] = norm(n["body"])
    elif k == "assert":
        o["assert"] = norm_assert(n["assert"])
        o["body"] = norm(n["body"])
    elif k in ("import", "importstr", "importbin"):
        o["path"] = norm(n["path"])
    elif k in ("error", "insuper"):
        o["e"] = norm(n["e"])
    return o


def canon(t):
    """Expected tree -> same canonical form as norm()."""
    if isinstance(t, list):
        return [canon(x) for x in t]
    if not isinstance(t, dict):
        return t
    o = {}
    for k, v in t.items():
        if k in ("form", "_needs_paren"):
            continue
        if k == "text" and t.get("k") == "number":
            o["value"] = str(Decimal(v.replace("_", "")).normalize())
        else:
            o[k] = canon(v)
    if t.get("k") == "call":
        o["tailstrict"] = bool(t.get("tailstrict"))
    return o


def diff(a, b, path="$"):
    """First difference between two canonical trees, or None."""
    if type(a) is not type(b):
        return f"{path}: {a!r} vs {b!r}"
    if isinstance(a, dict):
        for k in sorted(set(a) | set(b)):
            if k not in a or k not in b:
                return f"{path}.{k}: present in one tree only ({a.get(k)!r} vs {b.get(k)!r})"
            d = diff(a[k], b[k], f"{path}.{k}")
            if d:
                return d
        return None
    if isinstance(a, list):
        if len(a) != len(b):
            return f"{path}: length {len(a)} vs {len(b)}"
        for i, (x, y) in enumerate(zip(a, b)):
            d = diff(x, y, f"{path}[{i}]")
            if d:
                return d
        return None
    return None if a == b else f"{path}: {a!r} vs {b!r}"


def features(t, acc=None):
    acc = acc if acc is not None else {"levels": set(), "slice": 0, "objcomp": 0, "postfix": 0}
    if isinstance(t, dict):
        k = t.get("k")
        if k == "binary":
            acc["levels"].add(P.BIN_LEVEL[t["op"]])
        if k == "slice":
            acc["slice"] += 1
        if k == "comp":
            acc["objcomp"] += 1
        if k in ("field", "index", "call", "slice", "objext") and isinstance(t.get("e", t.get("f")), dict) and \
                t.get("e", t.get("f")).get("k") in ("field", "index", "call", "slice", "objext"):
            acc["postfix"] += 1
        for v in t.values():
            features(v, acc)
    elif isinstance(t, list):
        for v in t:
            features(v, acc)
    return acc


def is_nontrivial(tree):
    f = features(tree)
    return len(f["levels"]) >= 2 or f["slice"] or f["objcomp"] or f["postfix"]


# ---------------------------------------------------------------------------------------------

@st.composite
def roundtrip_case(draw):
    tree = draw(A.syntax_trees(max_leaves=draw(st.sampled_from([4, 8, 14]))))
    return {"tree": tree, "parens": draw(st.sampled_from(["minimal", "minimal", "full", "random"])),
            "spacing": draw(st.sampled_from(["tight", "normal", "noisy"])),
            "choices": draw(st.lists(st.integers(0, 1000), min_size=8, max_size=40))}


def check_roundtrip(case):
    text, exp = P.print_tree(case["tree"], chooser(case["choices"]), case["parens"], case["spacing"])
    r = parse(text)
    if "err" in r:
        raise Violation("roundtrip-rejected", f"printed tree does not parse ({r['err']['variant']} {r['err'].get('detail')} at {r['err']['spans']}): {text[:400]!r}")
    got = norm(r["ok"]["ast"])
    want = canon(exp)
    d = diff(want, got)
    if d:
        sig = "roundtrip-span" if ".span" in d else "roundtrip-tree"
        raise Violation(sig, f"re-parsed tree differs at {d} for text {text[:400]!r}")
    # the tree without parentheses equals the generated tree
    d = diff(canon(P.strip_parens(exp)), canon(P.strip_parens(case["tree"])))
    if d:
        raise RuntimeError(f"printer bug: {d}")
    return {"nontrivial": bool(is_nontrivial(case["tree"])), "labels": [case["parens"], case["spacing"]], "sample": text[:300]}


@st.composite
def precedence_case(draw):
    return {"tree": draw(A.operator_trees(max_leaves=draw(st.sampled_from([3, 5, 8])))),
            "choices": draw(st.lists(st.integers(0, 1000), min_size=4, max_size=20))}


def check_precedence(case):
    tree = case["tree"]
    t1, e1 = P.print_tree(tree, chooser(case["choices"]), "minimal", "tight")
    t2, e2 = P.print_tree(tree, chooser(case["choices"]), "full", "normal")
    r1, r2 = parse(t1), parse(t2)
    for t, r in ((t1, r1), (t2, r2)):
        if "err" in r:
            raise Violation("precedence-rejected", f"{t[:300]!r} does not parse: {r['err']}")
    a = P.strip_parens(norm(r1["ok"]["ast"]))
    b = P.strip_parens(norm(r2["ok"]["ast"]))
    want = canon(P.strip_parens(tree))
    d = diff(want, a)
    if d:
        raise Violation("precedence-grouping", f"{t1[:300]!r} groups differently from the precedence table: {d} (fully parenthesised: {t2[:300]!r})")
    d = diff(a, b)
    if d:
        raise Violation("precedence-paren-form", f"{t1[:200]!r} and its fully parenthesised form {t2[:200]!r} parse differently: {d}")
    return {"nontrivial": bool(is_nontrivial(tree)), "sample": t1[:200]}


# ---------------------------------------------------------------------------------------------
# syntax errors point at a token

MUT_TOKENS = [")", "(", "]", "[", "}", "{", ",", ";", ":", "::", "=", "then", "else", "for", "in", "if", "local", "function", "+", "*",
              ".", "x", "1", "'s'", "super", "tailstrict", "assert", "error", "import", "|||\n a\n|||", "<=>", "$", "self"]


@st.composite
def error_case(draw):
    tree = draw(A.syntax_trees(max_leaves=8))
    muts = draw(st.lists(st.tuples(st.integers(0, 10_000), st.integers(0, 4), st.sampled_from(MUT_TOKENS)), min_size=6, max_size=6))
    return {"tree": tree, "choices": draw(st.lists(st.integers(0, 1000), min_size=8, max_size=30)), "muts": [list(m) for m in muts]}


# a token is replaced by a *similar* token (the mistakes people make): visibility, brackets, keywords
SIMILAR = {":": ["::", ":::", "+:", "="], "::": [":", ":::"], ":::": ["::", ":"], "+:": ["+::", ":"], "=": [":", "=="], "[": ["(", "{"], "]": [")", "}"],
           "(": ["[", "{"], ")": ["]", "}"], "{": ["[", "("], "}": ["]", ")"], ",": [";", ""], ";": [",", ""], "for": ["if", "in"], "in": ["for", "="],
           "if": ["for", "then"], "then": ["else", ""], "else": ["then", ""], "local": ["assert", ""], "function": ["local", ""], ".": [",", ".."], "+": ["+:", "++"]}


def check_error(case):
    text, _ = P.print_tree(case["tree"], chooser(case["choices"]), "minimal", "normal")
    ref = RL.ref_lex(text.encode("utf-8"))
    assert ref[0] == "ok"
    toks = [(k, s, e) for k, _, s, e in ref[1] if k not in ("ws", "comment", "eof")]
    data = text.encode("utf-8")
    if not toks:
        return {}
    out = {"labels": []}
    for pos, kind, tokt in case["muts"]:
        r = check_error_one(data, toks, pos, kind, tokt)
        if r.get("nontrivial"):
            out["nontrivial"] = True
            out["sample"] = r["sample"]
        out["labels"] += r.get("labels", [])
    return out


def check_error_one(data, toks, pos, kind, tokt):
    i = pos % len(toks)
    _, s, e = toks[i]
    tok = tokt.encode("utf-8")
    if kind == 0:
        mutated = data[:s] + data[e:]
    elif kind == 1:
        mutated = data[:s] + b" " + tok + b" " + data[s:]
    elif kind == 2:
        mutated = data[:s] + b" " + tok + b" " + data[e:]
    elif kind == 3:
        mutated = data[:e]
    else:
        cur = data[s:e].decode("utf-8", "replace")
        alts = SIMILAR.get(cur)
        if not alts:
            return {}
        mutated = data[:s] + b" " + alts[pos % len(alts)].encode() + b" " + data[e:]
    r = util.request({"op": "parse", "src": {"hex": mutated.hex()}}, what=f"parse {mutated[:300]!r}")
    if "ok" in r:
        return {"labels": ["still-parses"]}
    err = r["err"]
    if err["phase"] != "parse":
        return {"labels": ["lex-error"]}
    lx = util.request({"op": "lex", "src": {"hex": mutated.hex()}, "ws": False})
    spans = {tuple(t["span"]): t for t in lx["ok"]["tokens"]}
    sp = tuple(err["spans"][0])
    if sp not in spans:
        raise Violation("parse-error-span", f"syntax error span {sp} is not the span of a token of {mutated[:300]!r}")
    t = spans[sp]
    inst = err["detail"]["instead"]
    kind_map = {"eof": "eof", "simple": "simple", "op": "op", "ident": "ident", "number": "number", "string": "string", "textblock": "textblock"}
    if kind_map.get(t["k"]) != inst["k"] or (inst["k"] in ("simple", "op", "ident") and inst.get("v") != t.get("v")):
        raise Violation("parse-error-instead", f"syntax error names {inst} but the token at {sp} is {t} in {mutated[:300]!r}")
    if not err["detail"]["expected"]:
        raise Violation("parse-error-expected-empty", f"syntax error without expectations on {mutated[:300]!r}")
    return {"nontrivial": True, "labels": ["parse-error"], "sample": mutated.decode("utf-8", "replace")[:200]}


# every token of a small program replaced by each similar token (exhaustive per generated tree)
@st.composite
def sweep_case(draw):
    sub = A.syntax_trees(max_leaves=3)
    feature = draw(st.integers(0, 7))
    if feature == 0:
        tree = {"k": "object", "inside": draw(A.obj_inside(sub).filter(lambda i: i["k"] == "comp"))}
    elif feature == 1:
        tree = {"k": "object", "inside": draw(A.obj_inside(sub).filter(lambda i: i["k"] == "members" and len(i["members"]) >= 2))}
    elif feature == 2:
        tree = {"k": "arraycomp", "body": draw(sub), "spec": draw(A.comp_spec(sub))}
    elif feature == 3:
        tree = {"k": "slice", "e": draw(sub), "start": draw(st.one_of(st.none(), sub)), "end": draw(st.one_of(st.none(), sub)), "step": draw(st.one_of(st.none(), sub))}
    elif feature == 4:
        tree = {"k": "local", "binds": draw(st.lists(A.bind(sub), min_size=1, max_size=2)), "body": draw(sub)}
    elif feature == 5:
        tree = draw(A.call(sub))
    elif feature == 6:
        tree = {"k": "if", "cond": draw(sub), "then": draw(sub), "else": draw(st.one_of(st.none(), sub))}
    else:
        tree = {"k": "objext", "e": draw(sub), "inside": draw(A.obj_inside(sub))}
    return {"tree": tree, "choices": draw(st.lists(st.integers(0, 1000), min_size=8, max_size=30))}


def check_sweep(case):
    text, _ = P.print_tree(case["tree"], chooser(case["choices"]), "minimal", "normal")
    ref = RL.ref_lex(text.encode("utf-8"))
    toks = [(k, s, e) for k, _, s, e in ref[1] if k not in ("ws", "comment", "eof")]
    data = text.encode("utf-8")
    n = 0
    for i, (_, s, e) in enumerate(toks):
        cur = data[s:e].decode("utf-8", "replace")
        for j, alt in enumerate(SIMILAR.get(cur, [])):
            mutated = data[:s] + b" " + alt.encode() + b" " + data[e:]
            judge_mutated(mutated)
            n += 1
        judge_mutated(data[:s] + data[e:])
        n += 1
    return {"nontrivial": n >= 8, "labels": [case["tree"]["k"]], "sample": text[:200]}


def judge_mutated(mutated):
    r = util.request({"op": "parse", "src": {"hex": mutated.hex()}}, what=f"parse {mutated[:300]!r}")
    if "ok" in r or r["err"]["phase"] != "parse":
        return
    err = r["err"]
    lx = util.request({"op": "lex", "src": {"hex": mutated.hex()}, "ws": False})
    spans = {tuple(t["span"]): t for t in lx["ok"]["tokens"]}
    sp = tuple(err["spans"][0])
    if sp not in spans:
        raise Violation("parse-error-span", f"syntax error span {sp} is not the span of a token of {mutated[:300]!r}")


CHECKS = [
    Check("similar_token_sweep", check_sweep, sweep_case, quick=60, thorough=2500),
    Check("print_reparse", check_roundtrip, roundtrip_case, quick=400, thorough=12000),
    Check("precedence", check_precedence, precedence_case, quick=400, thorough=12000),
    Check("error_points_at_token", check_error, error_case, quick=150, thorough=8000),
    _fuzz.replay_check(["parse_tree"]),
]
FUZZ = [("parse_tree", 1_000_000, 600)]
