"""C20 - parsing, encoding and hashing builtins compute the standard functions."""
import ast as pyast
import base64
import hashlib
import html
import json
import math
import re
import shlex

from hypothesis import strategies as st

from ..core import Check, Violation
from .. import fuzz as _fuzz
from ..gen import values as V
from ..ref import jsonstrict
from .. import util

PROPERTY = "C20"
RULE = ("digit strings (1-400 digits, a non-digit incl. multi-byte characters at every position) for parseInt/Octal/Hex "
        "vs Python int(); generated and mutated JSON documents for parseJson vs strict CPython json (accept <=> accept, "
        "equal values) and parseYaml == parseJson on tab-free documents; random strings / byte arrays for base64, "
        "UTF-8, md5/sha1/sha256/sha512/sha3 (hashlib) at lengths straddling block boundaries and escapeString* "
        "(json/ast/shlex/html inverses). Non-trivial = input longer than one hash block, >= 20 digits, a document with "
        "nesting >= 2 and an escape, or a mutated document that is still accepted; distinct by SHA-1 of the case")

JS = V.jsonnet_string
NONDIGITS = ["a", "g", "G", "x", " ", "-", "+", ".", "_", "/", ":", "@", "`", "8", "9", "f", "F", "\u00e9", "\u4e2d",
             "\U0001f600", "\uff15", "\u0661", "\u00b2", "\u0000", "\n"]


# ---------------------------------------------------------------------------------------------
# parseInt / parseOctal / parseHex

@st.composite
def radix_case(draw):
    radix = draw(st.sampled_from([8, 10, 16]))
    alphabet = {8: "01234567", 10: "0123456789", 16: "0123456789abcdefABCDEF"}[radix]
    n = draw(st.one_of(st.integers(1, 50), st.sampled_from([14, 15, 16, 17, 18, 19, 20, 31, 32, 33, 41, 42, 43, 44, 64, 100, 255, 256,
                                                            257, 308, 309, 310, 341, 342, 343, 400])))
    digits = draw(st.lists(st.sampled_from(alphabet), min_size=n, max_size=n))
    if draw(st.integers(0, 3)) == 0:
        z = draw(st.integers(1, 40))
        digits = ["0"] * z + digits
    s = "".join(digits)
    bad = None
    if draw(st.integers(0, 2)) == 0:
        pos = draw(st.integers(0, len(s)))
        ch = draw(st.sampled_from(NONDIGITS))
        if draw(st.booleans()):
            s = s[:pos] + ch + s[pos:]
        else:
            s = s[:pos] + ch + s[pos + 1:]
        bad = pos
    neg = radix == 10 and draw(st.integers(0, 3)) == 0
    if neg:
        s = "-" + s
    if draw(st.integers(0, 40)) == 0:
        s = draw(st.sampled_from(["", "-", "--1", "-+1", "+1", " 1", "1 ", "0x10", "0o7", "1e3", "1.0", "-0", "00", "-00"]))
    return {"radix": radix, "s": s}


def check_radix(case):
    radix, s = case["radix"], case["s"]
    fn = {8: "parseOctal", 10: "parseInt", 16: "parseHex"}[radix]
    grammar = {8: r"[0-7]+", 10: r"-?[0-9]+", 16: r"[0-9a-fA-F]+"}[radix]
    r = util.eval_one(f"std.{fn}({JS(s)})", want=["typed"])
    valid = re.fullmatch(grammar, s) is not None
    if not valid:
        if util.is_ok(r):
            raise Violation(f"accepted-invalid:{fn}", f"std.{fn}({s!a}) must be an error, got {V.show(util.typed(r))}")
        return {"nontrivial": len(s) >= 20, "labels": ["invalid"], "sample": {"fn": fn, "s": s[:80]}}
    v = int(s, radix)
    try:
        exp = float(v)
    except OverflowError:
        exp = None
    if exp is None:
        if util.is_ok(r) and abs(v) >= 2 ** 1024:
            raise Violation(f"overflow-accepted:{fn}", f"std.{fn}({s[:60]!a}...) exceeds the double range but gave {V.show(util.typed(r))}")
        return {"nontrivial": True, "labels": ["overflow"], "sample": {"fn": fn, "s": s[:80]}}
    if not util.is_ok(r):
        if abs(v) > 1.797693134862315e308:
            return {"labels": ["near-overflow"]}
        raise Violation(f"rejected-valid:{fn}", f"std.{fn}({s[:80]!a}) failed: {r['err']}")
    got = util.typed(r)
    if not V.is_num(got):
        raise Violation(f"wrong-type:{fn}", f"std.{fn}({s[:80]!a}) = {V.show(got)}")
    g = V.h2f(got["n"])
    if abs(v) < 2 ** 53 or radix == 10:
        if g != exp:
            raise Violation(f"wrong-value:{fn}", f"std.{fn}({s[:80]!a}) = {g!r}, expected {exp!r}")
    else:
        lo, hi = math.nextafter(exp, -math.inf), math.nextafter(exp, math.inf)
        if not (lo <= g <= hi):
            raise Violation(f"wrong-value:{fn}", f"std.{fn}({s[:80]!a}) = {g!r}, expected {exp!r} within 1 ulp")
    return {"nontrivial": len(s) >= 20, "labels": [fn], "sample": {"fn": fn, "s": s[:80]}}


# ---------------------------------------------------------------------------------------------
# parseJson / parseYaml

YAML_NONPRINTABLE = re.compile("[\x00-\x08\x0b\x0c\x0e-\x1f\x7f\x80-\x84\x86-\x9f\ufffe\uffff]")


def encode_string(draw, s, yaml_safe):
    out = ['"']
    for ch in s:
        c = ord(ch)
        mode = draw(st.integers(0, 5))
        if ch in '"\\':
            out.append("\\" + ch)
        elif c < 0x20 or (yaml_safe and YAML_NONPRINTABLE.match(ch)):
            short = {"\b": "\\b", "\f": "\\f", "\n": "\\n", "\r": "\\r", "\t": "\\t"}
            if ch in short and mode != 0:
                out.append(short[ch])
            else:
                out.append("\\u%04x" % c if mode % 2 else "\\u%04X" % c)
        elif ch == "/" and mode == 0:
            out.append("\\/")
        elif c < 0x10000 and mode == 1:
            out.append("\\u%04x" % c)
        elif c >= 0x10000 and mode == 1 and not yaml_safe:
            c2 = c - 0x10000
            out.append("\\u%04x\\u%04x" % (0xd800 + (c2 >> 10), 0xdc00 + (c2 & 0x3ff)))
        else:
            out.append(ch)
    out.append('"')
    return "".join(out)


def encode_number(draw, x):
    if x == int(x) and abs(x) < 1e15 and draw(st.booleans()):
        t = str(int(x))
        if x == 0 and math.copysign(1, x) < 0:
            t = "-0"
    else:
        t = repr(x)
        if draw(st.booleans()):
            t = t.replace("e", "E")
        if "e+" in t.lower() and draw(st.booleans()):
            t = t.replace("+", "")
    return t


def encode_doc(draw, v, yaml_safe, ws):
    def sp():
        return draw(st.sampled_from(ws))
    if v is None:
        return "null"
    if v is True:
        return "true"
    if v is False:
        return "false"
    if isinstance(v, str):
        return encode_string(draw, v, yaml_safe)
    if V.is_num(v):
        return encode_number(draw, V.h2f(v["n"]))
    if V.is_arr(v):
        return "[" + sp() + ("," + sp()).join(encode_doc(draw, x, yaml_safe, ws) + sp() for x in v["a"]) + "]"
    return "{" + sp() + ("," + sp()).join(encode_string(draw, k, yaml_safe) + sp() + ":" + sp() +
                                            encode_doc(draw, x, yaml_safe, ws) + sp() for k, x in v["o"]) + "}"


MUT_TOKENS = [",", ":", "[", "]", "{", "}", '"', "'", "\\", " ", "\n", "\t", "0", "1", "-", "+", ".", "e", "E", "null", "true",
              "false", "nul", "NaN", "Infinity", "-Infinity", "//x\n", "/*x*/", "\\u12", "\\ud800", "\\udc00", "\\x41", "\x00",
              "\x1f", "\x7f", "\u00a0", "\ufeff", "\u2028", "01", "1.", ".5", "1e", "0x1", "\\'", "\\a", ",,", "[]", "{}", '""',
              '"a":1', "\r", "\x0c", "\x0b"]


BAD_HEX4 = ["+041", "-041", " 041", "0x41", "00g1", "004\"", "+0041", "_041", "0_41", "004 ", "00\uff141", "\u0661\u0662\u0663\u0664", "0041".replace("4", "\uff14"),
            "00 4", "0.41", "1e41"[:4], "\t041", "004", "00", "", "004G", "d83d", "DC00"]
LENIENT_NUMBERS = ["+1", "1_0", "0x1", "0X1F", "1.", ".1", "1e", "01", "-01", "00", "1E+", "\u0663", "\uff11", "1e1_0", "1__0", "-", "- 1", "1 .5", "inf", "-inf", "nan",
                   "NaN", "Infinity", "-Infinity", "1f", "1d", "1L", "0b1", "0o7", "1e1.5", "1e+-1", "--1", "+0", "1,5", "1.e1", "1.5.5", "\u22121", "1e\u0663", "-0", "-0.0", "-0e0", "0e0",
                   "-00", "1e-0", "0.0", "-0E-0"]


@st.composite
def json_case(draw):
    yaml_safe = draw(st.booleans())
    v = draw(V.typed_values(max_leaves=10))
    ws = ["", "", " ", "\n", "  ", "\r\n", " \n "] + ([] if yaml_safe else ["\t"])
    doc = draw(st.sampled_from(ws)) + encode_doc(draw, v, yaml_safe, ws) + draw(st.sampled_from(ws))
    mutated = False
    nm = draw(st.sampled_from([0, 0, 1, 1, 2]))
    for _ in range(nm):
        mutated = True
        pos = draw(st.integers(0, len(doc)))
        kind = draw(st.integers(0, 3))
        tok = draw(st.sampled_from(MUT_TOKENS))
        if kind == 0:
            doc = doc[:pos] + tok + doc[pos:]
        elif kind == 1:
            doc = doc[:pos] + doc[pos + 1:]
        elif kind == 2:
            doc = doc[:pos] + tok + doc[pos + 1:]
        else:
            end = draw(st.integers(pos, len(doc)))
            doc = doc[:pos] + doc[end:]
    # leniencies of host-language parsers that RFC 8259 does not share: a malformed tail of a \u escape, a lenient number spelling
    if draw(st.integers(0, 5)) == 0:
        esc = [m.start() for m in re.finditer(r"\\u[0-9a-fA-F]{4}", doc)]
        if esc:
            at = esc[draw(st.integers(0, len(esc) - 1))]
            bad = draw(st.sampled_from(BAD_HEX4))
            doc = doc[:at + 2] + bad + doc[at + 6:]
            mutated = True
    if draw(st.integers(0, 5)) == 0:
        nums = [(m.start(), m.end()) for m in re.finditer(r"(?<![\\\w\"])-?[0-9][0-9.eE+-]*", doc)]
        if nums:
            a, b = nums[draw(st.integers(0, len(nums) - 1))]
            doc = doc[:a] + draw(st.sampled_from(LENIENT_NUMBERS)) + doc[b:]
            mutated = True
    if draw(st.integers(0, 30)) == 0:
        doc = draw(st.sampled_from(["", " ", "[", "]", "{", "[1,]", "{\"a\":1,}", "[1 2]", "{\"a\" 1}", "{\"a\":1 \"b\":2}",
                                    "{1:2}", "{\"a\":1,\"a\":2}", "{\"a\":{\"b\":1,\"b\":1}}", "1 2", "[1]]", "\"\\ud83d\\ude00\"",
                                    "\"\\ud83d\"", "\"\\ude00\\ud83d\"", "-", "-a", "--1", "1e400", "-1e400", "1e-400", "[1e309]",
                                    "123456789012345678901234567890", "0.1e1", "1E+2", "\"\x7f\"", "tru", "truee", "nullx",
                                    "\"abc", "\"\\", "\"\\u", "\"\\u00", "[\"a\",", "{\"a\":", "\u00a01", "1\u00a0"]))
        mutated = True
    return {"doc": doc, "mutated": mutated, "yaml_safe": yaml_safe and "\t" not in doc}


def has_surrogate(v):
    return any(isinstance(x, str) and any(0xd800 <= ord(c) <= 0xdfff for c in x) for x in V.walk(v))


def dup_keys(v):
    return any("duplicate" in p for p in jsonstrict.key_problems(v))


INVALID = object()


def check_json(case):
    doc = case["doc"]
    exp = INVALID
    why = None
    try:
        exp = jsonstrict.loads_typed(doc)
        if has_surrogate(exp):
            return {"labels": ["not-judged-lone-surrogate"]}
        if dup_keys(exp):
            exp, why = INVALID, "duplicate keys"
    except jsonstrict.NotJson as e:
        why = str(e)
    exprs = [f"std.parseJson({JS(doc)})"]
    surrogate_escape = re.search(r"\\u[dD][89a-fA-F]", doc) is not None
    judge_yaml = case["yaml_safe"] and exp is not INVALID and V.depth(exp) < 100 and not surrogate_escape \
        and not YAML_NONPRINTABLE.search(doc)
    exprs.append(f"std.parseYaml({JS(doc)})")
    res = util.eval_exprs(exprs, want=["typed"])
    r = res[0]
    if exp is INVALID:
        if util.is_ok(r):
            raise Violation("parsejson-accepts-invalid", f"std.parseJson accepted {doc[:200]!a} (not RFC 8259: {why}) -> {V.show(util.typed(r))}")
    else:
        if not util.is_ok(r):
            raise Violation("parsejson-rejects-valid", f"std.parseJson rejected the valid document {doc[:200]!a}: {r['err'].get('detail')}")
        got = util.typed(r)
        if not V.same(got, V.normalize(exp)):
            raise Violation("parsejson-wrong-value", f"std.parseJson({doc[:200]!a}) = {V.show(got)}, expected {V.show(exp)}")
    ry = res[1]
    labels = ["valid" if exp is not INVALID else "invalid"]
    if judge_yaml:
        labels.append("yaml-judged")
        if not util.is_ok(ry):
            raise Violation("parseyaml-rejects-json", f"std.parseYaml rejected the JSON document {doc[:200]!a}: {ry['err'].get('detail')}")
        goty = util.typed(ry)
        if not V.same(goty, V.normalize(exp), zero_sign=True):
            raise Violation("parseyaml-differs", f"std.parseYaml({doc[:200]!a}) = {V.show(goty)}, parseJson gives {V.show(exp)}")
    nt = (exp is not INVALID and V.depth(exp) >= 2 and "\\" in doc) or (case["mutated"] and exp is not INVALID)
    return {"nontrivial": nt, "labels": labels, "sample": doc[:200]}


# parseYaml totality on YAML-ish text
YAML_FRAGS = ["a: 1\n", "- a\n", "- - b\n", "? k\n: v\n", "&x 1\n", "*x\n", "&x [*x]\n", "!!str 1\n", "!t {a: 1}\n", "---\n", "...\n",
              "|\n  text\n", ">-\n  folded\n", "{a: [1, 2]}\n", "[a, {b: c}]\n", "'it''s'\n", '"\\x41\\u00e9\\U0001F600"\n',
              "0x1F\n", "0o17\n", ".inf\n", "-.INF\n", ".nan\n", "~\n", "1_000\n", "2001-12-14\n", "<<: *x\n", "a: &y\n  b: 1\nc: *y\n",
              "%YAML 1.2\n---\n", "# comment\n", "a:\n  - b\n  -  c\n", "\t", "  ", ": ", "- ", "? ", "key: |+\n\n", "[", "{", "]", "}",
              ",", "&", "*", "!", "%", "@", "`", "\"", "'", "\\", "0x" + "1" * 31 + "\u00e9", "0x" + "f" * 40, "0o" + "7" * 50,
              "1e400\n", "-0\n", "+1\n", "a: b: c\n", "? [a]\n: 1\n", "? {a: 1}\n: 1\n", "{a: 1, a: 2}\n", "- &a [*a]\n", "\u00e9: \u4e2d\n",
              "\ufeff", "\x00", "\x85", "\u2028"]


@st.composite
def yaml_case(draw):
    parts = draw(st.lists(st.one_of(st.sampled_from(YAML_FRAGS), V.strings(6)), min_size=1, max_size=8))
    text = "".join(parts)
    if draw(st.integers(0, 10)) == 0:
        d = draw(st.integers(1, 300))
        text = "[" * d + text + "]" * draw(st.integers(0, d))
    return {"text": text}


def check_yaml_total(case):
    text = case["text"]
    r = util.eval_one(f"std.parseYaml({JS(text)})", want=["typed"])
    if util.is_ok(r):
        t = util.typed(r)
        if not util.all_finite(t):
            raise Violation("parseyaml-nonfinite", f"std.parseYaml({text[:120]!a}) produced a non-finite number: {V.show(t)}")
        return {"nontrivial": len(text) > 8, "labels": ["yaml-ok"], "sample": text[:120]}
    return {"nontrivial": len(text) > 8, "labels": ["yaml-err"], "sample": text[:120]}


# ---------------------------------------------------------------------------------------------
# base64 / UTF-8 / hashes / escapes

BLOCK_LENS = [0, 1, 2, 3, 4, 5, 54, 55, 56, 57, 63, 64, 65, 71, 72, 73, 111, 112, 113, 119, 120, 127, 128, 129, 135, 136, 137, 143, 144, 145,
              200, 255, 256, 257, 1000]


@st.composite
def bytes_case(draw):
    n = draw(st.one_of(st.integers(0, 20), st.sampled_from(BLOCK_LENS)))
    data = draw(st.binary(min_size=n, max_size=n))
    s = draw(st.one_of(V.strings(20), st.text(alphabet=V.chars(), min_size=n, max_size=n)))
    b64 = base64.b64encode(draw(st.binary(max_size=12))).decode()
    if draw(st.integers(0, 2)) == 0:
        pos = draw(st.integers(0, len(b64)))
        tok = draw(st.sampled_from(["=", "==", "-", "_", " ", "\n", "A", "/", "+", "\u00e9", "*", ""]))
        b64 = b64[:pos] + tok + (b64[pos + 1:] if draw(st.booleans()) else b64[pos:])
    return {"bytes": list(data), "s": s, "b64": b64}


B64_RE = re.compile(r"([A-Za-z0-9+/]{4})*([A-Za-z0-9+/]{2}==|[A-Za-z0-9+/]{3}=)?")


def check_bytes(case):
    data = bytes(case["bytes"])
    s = case["s"]
    b64 = case["b64"]
    arr = "[" + ",".join(str(b) for b in data) + "]"
    latin = "".join(chr(b) for b in data)
    sb = s.encode("utf-8")
    exprs = [
        f"std.base64({arr})",                       # 0
        f"std.base64({JS(latin)})",                 # 1
        f"std.base64DecodeBytes(std.base64({arr}))",  # 2
        f"std.base64Decode(std.base64({arr}))",     # 3
        f"std.base64DecodeBytes({JS(b64)})",        # 4
        f"std.base64Decode({JS(b64)})",             # 5
        f"std.encodeUTF8({JS(s)})",                 # 6
        f"std.decodeUTF8({arr})",                   # 7
        f"std.decodeUTF8(std.encodeUTF8({JS(s)}))",  # 8
        f"std.md5({JS(s)})", f"std.sha1({JS(s)})", f"std.sha256({JS(s)})", f"std.sha512({JS(s)})", f"std.sha3({JS(s)})",  # 9..13
        f"std.escapeStringJson({JS(s)})",           # 14
        f"std.escapeStringPython({JS(s)})",         # 15
        f"std.escapeStringBash({JS(s)})",           # 16
        f"std.escapeStringDollars({JS(s)})",        # 17
        f"std.escapeStringXML({JS(s)})",            # 18
        f"std.base64({JS(s)})",                     # 19
    ]
    res = util.eval_exprs(exprs, want=["typed"])

    def ok(i):
        if not util.is_ok(res[i]):
            raise Violation(f"unexpected-error:{i}", f"{exprs[i][:200]} failed: {res[i]['err']}")
        return util.typed(res[i])

    def expect(i, want, what):
        got = ok(i)
        if got != want:
            raise Violation(f"wrong:{what}", f"{exprs[i][:200]} = {str(got)[:200]!a}, expected {str(want)[:200]!a}")

    nums = lambda bs: {"a": [V.num(b) for b in bs]}
    e64 = base64.b64encode(data).decode()
    expect(0, e64, "base64(bytes)")
    expect(1, e64, "base64(latin1 string)")
    expect(2, nums(data), "base64DecodeBytes.base64")
    expect(3, latin, "base64Decode.base64")
    valid = B64_RE.fullmatch(b64) is not None
    for i, name in ((4, "base64DecodeBytes"), (5, "base64Decode")):
        if valid:
            dec = base64.b64decode(b64)
            expect(i, nums(dec) if i == 4 else "".join(chr(b) for b in dec), name)
        elif util.is_ok(res[i]):
            raise Violation(f"accepted-invalid:{name}", f"std.{name}({b64!a}) is not RFC 4648 base64 but gave {str(util.typed(res[i]))[:100]}")
    expect(6, nums(sb), "encodeUTF8")
    expect(7, data.decode("utf-8", "replace"), "decodeUTF8")
    expect(8, s, "decodeUTF8.encodeUTF8")
    for i, h in zip(range(9, 14), [hashlib.md5, hashlib.sha1, hashlib.sha256, hashlib.sha512, hashlib.sha3_512]):
        expect(i, h(sb).hexdigest(), h.__name__ if hasattr(h, "__name__") else "hash")
    ej = ok(14)
    try:
        back = json.loads(ej)
    except ValueError as e:
        raise Violation("escape-json-invalid", f"std.escapeStringJson({s!a}) = {ej!a} is not JSON: {e}")
    if back != s:
        raise Violation("escape-json-roundtrip", f"std.escapeStringJson({s!a}) = {ej!a} decodes to {back!a}")
    ep = ok(15)
    try:
        back = pyast.literal_eval(ep)
    except (ValueError, SyntaxError) as e:
        raise Violation("escape-python-invalid", f"std.escapeStringPython({s!a}) = {ep!a} is not a Python literal: {e}")
    if back != s:
        raise Violation("escape-python-roundtrip", f"std.escapeStringPython({s!a}) = {ep!a} decodes to {back!a}")
    eb = ok(16)
    if "\x00" not in s:
        try:
            back = shlex.split(eb)
        except ValueError as e:
            raise Violation("escape-bash-invalid", f"std.escapeStringBash({s!a}) = {eb!a}: {e}")
        if back != [s]:
            raise Violation("escape-bash-roundtrip", f"std.escapeStringBash({s!a}) = {eb!a} splits to {back!a}")
    ed = ok(17)
    if ed.replace("$$", "$") != s or ed.count("$") != 2 * s.count("$"):
        raise Violation("escape-dollars", f"std.escapeStringDollars({s!a}) = {ed!a}")
    ex = ok(18)
    if html.unescape(ex) != html.unescape(s.replace("&", "&amp;")) or re.search(r"[<>\"']", ex) or re.search(r"&(?!(amp|lt|gt|quot|apos);)", ex):
        raise Violation("escape-xml", f"std.escapeStringXML({s!a}) = {ex!a}")
    if all(ord(c) < 256 for c in s):
        expect(19, base64.b64encode(bytes(ord(c) for c in s)).decode(), "base64(string)")
    elif util.is_ok(res[19]):
        raise Violation("base64-wide-char", f"std.base64({s!a}) has code points > 255 but gave {util.typed(res[19])!a}")
    return {"nontrivial": len(data) > 64 or len(sb) > 64, "labels": [f"len>{64}" if len(sb) > 64 else "short"],
            "sample": {"bytes": len(data), "s": s[:40], "b64": b64}}


CHECKS = [
    Check("parse_radix", check_radix, radix_case, quick=500, thorough=15000),
    Check("parse_json_yaml", check_json, json_case, quick=400, thorough=12000),
    Check("parse_yaml_total", check_yaml_total, yaml_case, quick=300, thorough=10000),
    Check("encode_hash_escape", check_bytes, bytes_case, quick=200, thorough=6000),
    _fuzz.replay_check(["textparsers"]),
]
FUZZ = [("textparsers", 500_000, 300)]
