"""C14 - lexing tiles the input and decodes literals exactly."""
import glob
import os
from fractions import Fraction

from hypothesis import strategies as st

from ..core import Check, Violation
from .. import fuzz as _fuzz
from ..ref import lexer as RL
from .. import util

PROPERTY = "C14"
RULE = ("(1) arbitrary and corpus-mutated byte strings: tiling/filter invariants; (2) 'token soup' built from a pool of "
        "lexical fragments (every operator character, quotes, escapes, digits/underscores/exponents, identifiers, "
        "keywords, comments, text-block pieces, multi-byte and invalid UTF-8 bytes): full differential against a "
        "reference lexer written from the specification (kinds, payloads, spans, error/no error); (3) intended token "
        "lists with independently chosen spellings (all escapes, surrogate pairs, verbatim, text blocks with |||-, "
        "tabs/spaces indentation, blank lines, numbers): payload equals the intended value; (4) every Unicode scalar "
        "value and invalid UTF-8 prefixes inside string/verbatim/text-block bodies and comments (strided in quick, "
        "exhaustive in thorough). Non-trivial = the input has a text block, an escape, a multi-byte character, an "
        "operator cluster >= 3 or a number with _/exponent; for raw bytes >= 3 tokens or an error other than "
        "invalid-char at offset 0; distinct by SHA-1 of the case")


def lex(data, ws=True):
    return util.request({"op": "lex", "src": {"hex": bytes(data).hex()}, "ws": ws}, what=f"lex {bytes(data)[:200]!r}")


def check_tiling(data, r, r2):
    n = len(data)
    if "err" in r:
        e = r["err"]
        s, t = e["spans"][0]
        if not (0 <= s <= t <= n):
            raise Violation("lex-error-span", f"lex error {e['variant']} span [{s},{t}] outside input of length {n}: {bytes(data)[:100]!r}")
        if "err" not in r2 or r2["err"]["variant"] != e["variant"] or r2["err"]["spans"] != e["spans"]:
            raise Violation("lex-filter-error", f"lexing with and without whitespace tokens reports different errors on {bytes(data)[:100]!r}")
        return None
    toks = r["ok"]["tokens"]
    pos = 0
    for i, t in enumerate(toks):
        s, e = t["span"]
        if s != pos:
            raise Violation("tiling-gap", f"token {i} ({t['k']}) starts at {s}, previous ended at {pos}: {bytes(data)[:100]!r}")
        if e < s:
            raise Violation("tiling-negative", f"token {i} has span [{s},{e}]")
        if e == s and t["k"] != "eof":
            raise Violation("tiling-empty", f"empty token {t} at {s}: {bytes(data)[:100]!r}")
        pos = e
    if not toks or toks[-1]["k"] != "eof" or toks[-1]["span"] != [n, n] or pos != n:
        raise Violation("tiling-eof", f"last token is {toks[-1] if toks else None}, input length {n}")
    if any(t["k"] == "eof" for t in toks[:-1]):
        raise Violation("tiling-eof", "end-of-file token before the end")
    if "ok" not in r2:
        raise Violation("lex-filter-error", f"lexing without whitespace tokens fails but with them succeeds: {bytes(data)[:100]!r}")
    filtered = [t for t in toks if t["k"] not in ("ws", "comment")]
    if filtered != r2["ok"]["tokens"]:
        raise Violation("lex-filter", f"dropping whitespace/comments changes the other tokens on {bytes(data)[:100]!r}")
    return toks


_CORPUS = None


def corpus():
    global _CORPUS
    if _CORPUS is None:
        files = sorted(glob.glob("/repo/ui-tests/**/*.jsonnet", recursive=True))
        _CORPUS = [open(f, "rb").read() for f in files]
    return _CORPUS


@st.composite
def bytes_case(draw):
    mode = draw(st.integers(0, 3))
    if mode == 0:
        data = draw(st.binary(max_size=40))
    elif mode == 1:
        data = draw(st.lists(st.sampled_from(list(b" \n\t\"'\\/*#|-+:=<>!~$%&^.,;()[]{}@_09aeEux") + [0x80, 0xc3, 0xa9, 0xe2, 0x82, 0xac, 0xf0, 0x9f, 0x98, 0xff, 0xc0, 0xed, 0xa0]),
                             max_size=30)).__iter__()
        data = bytes(data)
    else:
        c = corpus()
        base = bytearray(c[draw(st.integers(0, len(c) - 1))][:600])
        for _ in range(draw(st.integers(0, 3))):
            if not base:
                break
            pos = draw(st.integers(0, len(base) - 1))
            kind = draw(st.integers(0, 3))
            if kind == 0:
                base[pos] = draw(st.integers(0, 255))
            elif kind == 1:
                del base[pos]
            elif kind == 2:
                base[pos:pos] = draw(st.binary(min_size=1, max_size=3))
            else:
                del base[pos:]
        data = bytes(base)
    return {"hex": data.hex()}


def check_bytes(case):
    data = bytes.fromhex(case["hex"])
    r = lex(data, True)
    r2 = lex(data, False)
    toks = check_tiling(data, r, r2)
    ref = RL.ref_lex(data)
    compare_with_ref(data, r, ref)
    if toks is None:
        nt = not (r["err"]["variant"] == "InvalidChar" and r["err"]["spans"][0][0] == 0)
        return {"nontrivial": nt, "labels": ["err:" + r["err"]["variant"]], "sample": repr(data[:80])}
    return {"nontrivial": len(toks) >= 4, "labels": ["ok"], "sample": repr(data[:80])}


def compare_with_ref(data, r, ref):
    if ref[0] == "err":
        if "ok" in r:
            raise Violation("lex-accepts-invalid", f"lexer accepted input the lexical grammar rejects ({ref[1]} at {ref[2]}): {bytes(data)[:120]!r}")
        return
    if "err" in r:
        e = r["err"]
        if e["variant"] == "ExpOverflow":
            return
        raise Violation("lex-rejects-valid", f"lexer rejected ({e['variant']} at {e['spans'][0]}) input the lexical grammar accepts: {bytes(data)[:120]!r}")
    toks = r["ok"]["tokens"]
    rt = ref[1]
    if len(toks) != len(rt):
        raise Violation("lex-token-count", f"{len(toks)} tokens, reference {len(rt)} on {bytes(data)[:120]!r}: {[t['k'] for t in toks][:20]} vs {[t[0] for t in rt][:20]}")
    for t, (k, v, s, e) in zip(toks, rt):
        if t["span"] != [s, e] or t["k"] != k:
            raise Violation("lex-token-shape", f"token {t} vs reference {(k, v, s, e)} on {bytes(data)[:120]!r}")
        if k in ("simple", "op", "ident", "string", "textblock"):
            if t.get("v") != v:
                raise Violation(f"lex-payload:{k}", f"token {t} vs reference value {v!a} on {bytes(data)[:120]!r}")
        elif k == "number":
            got = Fraction(int(t["digits"])) * Fraction(10) ** t["exp"]
            if got != Fraction(v):
                raise Violation("lex-payload:number", f"number token {t} = {got}, text denotes {v} on {bytes(data)[:120]!r}")


# ---------------------------------------------------------------------------------------------
# token soup

FRAGS = [b"!", b"$", b":", b"~", b"+", b"-", b"&", b"|", b"^", b"=", b"<", b">", b"*", b"/", b"%", b"::", b":::", b"+:", b"||",
         b"|||", b"|||-", b"//", b"/*", b"*/", b"#", b"==", b"!=", b"<=", b">=", b"<<", b">>", b"&&",
         b"{", b"}", b"[", b"]", b",", b".", b"(", b")", b";", b" ", b"  ", b"\n", b"\t", b"\r\n", b"\r",
         b"'", b'"', b"@'", b'@"', b"@", b"\\", b"\\n", b"\\u", b"\\u00e9", b"\\ud83d", b"\\ude00", b"\\uD83D\\uDE00", b"\\x", b"\\'", b'\\"', b"\\\\", b"\\/",
         b"0", b"1", b"9", b"10", b"007", b".5", b"1.5", b"e", b"E", b"e+", b"e-", b"e5", b"E-3", b"_", b"1_000", b"_1", b"1__0",
         b"a", b"x1", b"_a", b"local", b"self", b"super", b"true", b"in", b"import", b"importstr", b"tailstrict", b"nul", b"nulll", b"If",
         "é".encode(), "中".encode(), "😀".encode(), b"\xc3", b"\xa9", b"\xe2\x82", b"\xf0\x9f", b"\xff", b"\xc0\x80", b"\xc1\xbf",
         b"\xed\xa0\x80", b"\xe0\x80\x80", b"\xf4\x90\x80\x80", b"\xef\xbb\xbf", b"\x00", b"\x7f", b"\x0b", b"\x0c",
         b"  text\n", b"\ttab\n", b" |||", b"|||\n", b"|||\n  a\n|||", b"|||-\n\ta\n\t|||", b"|||\n\n  a\n\n  b\n  |||"]


def _bytes_from(alphabet, max_size):
    return st.lists(st.sampled_from(alphabet), max_size=max_size).map(lambda l: b"".join(l))


# near-valid tokens of each class: a valid frame around a noisy body
COMMENT_BODY = [b"*", b"*", b"/", b" ", b"a", b"\n", b"**", b"*/", b"/*", b"\xc3\xa9", b"\xff", b"#", b"//"]
STRING_BODY = [b"a", b"\\", b"\\\\", b"\\n", b"\\u", b"00e9", b"d83d", b"\\ude00", b"\\uD83D", b"'", b'"', b"''", b'""', b"\xc3\xa9", b"\xe2\x82", b"\xf0\x80\x80\x80",
               b"\xf0\x8f\xbf\xbf", b"\xf0\x9f\x98\x80", b"\xed\xa0\x80", b"\xc0\x80", b"\xff", b"\n", b" ", b"\\x", b"\\/", b"\\b", b"z", b"\xf4\x90\x80\x80", b"\xe0\x9f\xbf"]
NUMBER_BODY = [b"0", b"1", b"9", b"_", b".", b"e", b"E", b"+", b"-", b"00", b"1e", b"e5", b"_1", b"1_", b"5."]
TB_LINES = [b"  a\n", b"  \n", b"\n", b"\r\n", b"\r\n", b"  \r\n", b"\r", b"  b\r\n", b"\ta\n", b"   b\n", b" c\n", b"  |||\n", b"  a\r\n", b"  \xff\n", b"  \xc3\xa9\n", b"a\n", b"\t\n", b"  a"]


@st.composite
def structured_fragment(draw):
    k = draw(st.integers(0, 5))
    if k == 0:
        return b"/*" + draw(_bytes_from(COMMENT_BODY, 6)) + b"*/"
    if k == 1:
        q = draw(st.sampled_from([b"'", b'"']))
        return q + draw(_bytes_from(STRING_BODY, 6)) + q
    if k == 2:
        q = draw(st.sampled_from([b"@'", b'@"']))
        return q + draw(_bytes_from(STRING_BODY, 5)) + q[1:]
    if k == 3:
        return draw(st.sampled_from([b"1", b"0", b"12", b"7"])) + draw(_bytes_from(NUMBER_BODY, 5))
    if k == 4:
        return draw(st.sampled_from([b"|||\n", b"|||-\n", b"||| \n", b"|||\t\r\n", b"|||\r\n", b"|||-\r\n", b"|||"])) + draw(_bytes_from(TB_LINES, 5)) + draw(st.sampled_from([b"|||", b" |||", b"\t|||", b"  |||", b""]))
    return draw(st.sampled_from([b"//", b"#"])) + draw(_bytes_from(COMMENT_BODY, 4)) + b"\n"


@st.composite
def soup_case(draw):
    parts = draw(st.lists(st.one_of(st.sampled_from(FRAGS), st.sampled_from(FRAGS), structured_fragment()), min_size=1, max_size=12))
    return {"hex": b"".join(parts).hex()}


def check_soup(case):
    data = bytes.fromhex(case["hex"])
    r = lex(data, True)
    r2 = lex(data, False)
    toks = check_tiling(data, r, r2)
    ref = RL.ref_lex(data)
    compare_with_ref(data, r, ref)
    labels = ["ok" if toks is not None else "err:" + r["err"]["variant"]]
    nt = False
    if toks is not None:
        ks = [t["k"] for t in toks]
        nt = "textblock" in ks or "op" in ks or any(t["k"] == "string" and (b"\\" in data or any(ord(c) > 127 for c in t["v"])) for t in toks) \
            or any(t["k"] == "number" and t["exp"] != 0 for t in toks)
        if "textblock" in ks:
            labels.append("textblock")
    else:
        nt = r["err"]["variant"] != "InvalidChar"
    return {"nontrivial": nt, "labels": labels, "sample": repr(data[:100])}


# ---------------------------------------------------------------------------------------------
# intended tokens with chosen spellings

ESC = {'"': '\\"', "'": "\\'", "\\": "\\\\", "/": "\\/", "\b": "\\b", "\f": "\\f", "\n": "\\n", "\r": "\\r", "\t": "\\t"}
STRCHARS = ["a", "b", " ", '"', "'", "\\", "/", "\b", "\f", "\n", "\r", "\t", "\x00", "\x1f", "\x7f", "\u00e9", "\u00df", "\u4e2d", "\u2028", "\ufeff",
            "\U00020000", "\U0002a6df", "\U000e0001", "\U000f0000", "\U0010ffff", "\U00040000",
            "\ufffd", "\ud7ff", "\ue000", "\uffff", "\U00010000", "\U0001f600", "\U0010ffff", "|", "@", "%", "$", "#", "*"]


@st.composite
def spelled_string(draw):
    s = "".join(draw(st.lists(st.sampled_from(STRCHARS), max_size=8)))
    form = draw(st.sampled_from(["dq", "sq", "vdq", "vsq", "tb", "tb-"]))
    if form in ("dq", "sq"):
        q = '"' if form == "dq" else "'"
        out = [q]
        for ch in s:
            mode = draw(st.integers(0, 3))
            c = ord(ch)
            if ch == q or ch == "\\":
                out.append(ESC[ch])
            elif ch in ESC and mode != 0 and ch not in "\"'/":
                out.append(ESC[ch])
            elif ch in "\"'/" and mode == 1:
                out.append(ESC[ch])
            elif mode == 2 or (c < 0x20 and mode == 3 and False):
                if c < 0x10000:
                    out.append(("\\u%04x" if draw(st.booleans()) else "\\u%04X") % c)
                else:
                    c2 = c - 0x10000
                    out.append("\\u%04x\\u%04x" % (0xd800 + (c2 >> 10), 0xdc00 + (c2 & 0x3ff)))
            else:
                out.append(ch)
        out.append(q)
        return ("string", s, "".join(out))
    if form in ("vdq", "vsq"):
        q = '"' if form == "vdq" else "'"
        return ("string", s, "@" + q + s.replace(q, q + q) + q)
    # text block: lines from s split on \n; content must end with newline
    lines = s.replace("\r", "").split("\n")
    indent = draw(st.sampled_from(["  ", " ", "\t", "\t ", "    "]))
    body = []
    value = []
    first = True
    for ln in lines:
        if first:
            # the first line's leading whitespace *is* the indentation: its content starts with a visible character
            if ln == "" or ln[0] in " \t":
                ln = "A" + ln
            body.append(indent + ln + "\n")
            value.append(ln + "\n")
        elif ln == "" and draw(st.booleans()):
            body.append("\n")
            value.append("\n")
        else:
            extra = draw(st.sampled_from(["", "", " ", "\t"]))
            body.append(indent + extra + ln + "\n")
            value.append(extra + ln + "\n")
        first = False
    term_indent = draw(st.sampled_from(["", " ", indent[:-1], "\t"])) if True else ""
    if term_indent.startswith(indent):
        term_indent = ""
    head = "|||" + ("-" if form == "tb-" else "") + draw(st.sampled_from(["", " ", "\t", " \r"])) + "\n"
    text = head + "".join(body) + term_indent + "|||"
    val = "".join(value)
    if form == "tb-":
        val = val[:-1]
    return ("textblock", val, text)


@st.composite
def spelled_number(draw):
    ip = draw(st.sampled_from(["0", "1", "7", "10", "42", "1234567890", "9" * 20]))
    s = ip
    if draw(st.booleans()):
        s += "." + draw(st.sampled_from(["0", "5", "25", "000", "123456789", "0" * 20 + "1"]))
    if draw(st.booleans()):
        s += draw(st.sampled_from("eE")) + draw(st.sampled_from(["", "+", "-"])) + draw(st.sampled_from(["0", "1", "5", "10", "007", "300"]))
    plain = s
    if draw(st.booleans()):
        out = []
        for i, ch in enumerate(s):
            out.append(ch)
            if ch.isdigit() and i + 1 < len(s) and s[i + 1].isdigit() and draw(st.integers(0, 2)) == 0:
                out.append("_")
        s = "".join(out)
    return ("number", plain, s)


SIMPLE = sorted(set(RL.KEYWORDS) | set(RL.SYMBOLS) | set(RL.OPERATORS))


@st.composite
def spelled_tokens(draw):
    toks = []
    for _ in range(draw(st.integers(1, 8))):
        k = draw(st.integers(0, 5))
        if k == 0:
            toks.append(draw(spelled_string()))
        elif k == 1:
            toks.append(draw(spelled_number()))
        elif k == 2:
            t = draw(st.sampled_from(SIMPLE))
            name = RL.KEYWORDS.get(t) or RL.SYMBOLS.get(t) or RL.OPERATORS.get(t)
            toks.append(("simple", name, t))
        elif k == 3:
            toks.append(("ident", draw(st.sampled_from(["a", "x1", "_", "_a_", "nulls", "Local", "i", "selfish", "e5", "E"])), None))
        elif k == 4:
            toks.append(("comment", None, draw(st.sampled_from(["// c\n", "# c\n", "/* c */", "/**/", "/* * / */", "//\n", "/*\n*/", "# é\n", "// |||\n"]))))
        else:
            toks.append(("op", draw(st.sampled_from(["<=>", "=>", "->", "**", "^^", "~=", "!!=", "<<<", ">>=", "&&&", "|>", "<|", "%%", "::=", ":=", "+=", "-=", "===", "$$=", "-+*"])), None))
    seps = [draw(st.sampled_from([" ", "\n", "  ", "\t", " /* */ ", "\r\n"])) for _ in toks]
    return {"toks": [list(t) for t in toks], "seps": seps}


def check_spelled(case):
    parts = []
    expected = []
    for (k, v, text), sep in zip(case["toks"], case["seps"]):
        if text is None:
            text = v
        parts.append(text)
        parts.append(sep)
        expected.append((k, v, text))
    # surrogate code points cannot be encoded; the generator never produces them
    src = "".join(parts).encode("utf-8")
    r = lex(src, False)
    if "err" in r:
        raise Violation("spelled-rejected", f"legal token sequence rejected ({r['err']['variant']} at {r['err']['spans']}): {src[:200]!r}")
    toks = [t for t in r["ok"]["tokens"] if t["k"] != "eof"]
    exp = [e for e in expected if e[0] != "comment"]
    if len(toks) != len(exp):
        raise Violation("spelled-count", f"{len(toks)} tokens for {len(exp)} intended: {src[:200]!r} -> {[t['k'] for t in toks]}")
    for t, (k, v, text) in zip(toks, exp):
        if t["k"] != k:
            raise Violation("spelled-kind", f"intended {k} {text!a}, got {t} in {src[:200]!r}")
        if k == "number":
            if Fraction(int(t["digits"])) * Fraction(10) ** t["exp"] != Fraction(v):
                raise Violation("spelled-number", f"literal {text!a} lexed as digits={t['digits']} exp={t['exp']}")
        elif t.get("v") != v:
            raise Violation(f"spelled-payload:{k}", f"spelling {text!a} should denote {v!a}, got {t.get('v')!a}")
    ref = RL.ref_lex(src)
    if ref[0] != "ok":
        raise RuntimeError(f"reference lexer rejects generated sequence {src!r}: {ref}")
    kinds = [k for k, _, _ in exp]
    nt = any(k in ("textblock",) for k in kinds) or "\\" in "".join(parts) or any(ord(c) > 127 for c in "".join(parts)) or "_" in "".join(p for p in parts if p[:1].isdigit())
    return {"nontrivial": nt, "labels": sorted(set(kinds))[:4], "sample": src.decode("utf-8", "replace")[:160]}


# ---------------------------------------------------------------------------------------------
# every Unicode scalar value / invalid UTF-8 prefixes inside bodies

def scalar_chunks(tier, worker, nworkers):
    step = 1 if tier == "thorough" else 23
    cps = [c for c in range(0, 0x110000, step) if not (0xd800 <= c <= 0xdfff)]
    cps += [0, 0x7f, 0x80, 0x7ff, 0x800, 0xffff, 0x10000, 0x10ffff, 0xd7ff, 0xe000, 0x22, 0x27, 0x5c, 0x0a, 0x0d]
    chunk = 2048
    chunks = [cps[i:i + chunk] for i in range(0, len(cps), chunk)]
    for i, ch in enumerate(chunks):
        if i % nworkers == worker:
            yield {"kind": "scalars", "cps": [ch[0], ch[-1], len(ch)], "list": ch}
    # \uXXXX escapes (BMP) and surrogate-pair escapes (every plane, plane boundaries included)
    estep = 1 if tier == "thorough" else 61
    ecps = [c for c in range(0, 0x110000, estep) if not (0xd800 <= c <= 0xdfff)]
    ecps += [p * 0x10000 + o for p in range(1, 17) for o in (0, 1, 0x3ff, 0x400, 0xfffe, 0xffff)] + [0xd7ff, 0xe000, 0xffff, 0xfffe, 0x7f, 0x80]
    echunks = [ecps[i:i + 1024] for i in range(0, len(ecps), 1024)]
    for i, ch in enumerate(echunks):
        if i % nworkers == worker:
            yield {"kind": "escapes", "cps": [ch[0], ch[-1], len(ch)], "list": ch}
    # invalid UTF-8: all 2-byte sequences starting with a non-ASCII byte, in a string and in a comment
    if tier == "thorough":
        leads = list(range(0x80, 0x100))
    else:
        leads = [0x80, 0xbf, 0xc0, 0xc1, 0xc2, 0xdf, 0xe0, 0xe1, 0xed, 0xef, 0xf0, 0xf1, 0xf4, 0xf5, 0xff]
    for i, lead in enumerate(leads):
        if i % nworkers == worker:
            yield {"kind": "invalid", "lead": lead}


def check_scalars(case):
    if case["kind"] == "escapes":
        cps = case["list"]
        parts, exp = [], []
        for n, c in enumerate(cps):
            if c < 0x10000:
                esc = "\\u%04x" % c
            else:
                v = c - 0x10000
                esc = "\\u%04X\\u%04x" % (0xd800 + (v >> 10), 0xdc00 + (v & 0x3ff))
            if n % 3 == 1:
                esc = esc.upper().replace("\\U", "\\u")
            q = "'" if n % 2 else '"'
            parts.append(q + "a" + esc + "z" + q)
            exp.append("a" + chr(c) + "z")
        src = " ".join(parts).encode("ascii")
        r = lex(src, False)
        if "err" in r:
            raise Violation("escape-rejected", f"escape of a scalar in U+{cps[0]:04X}..U+{cps[-1]:04X} rejected: {r['err']}")
        got = [t.get("v") for t in r["ok"]["tokens"] if t["k"] != "eof"]
        for g, e, p_ in zip(got, exp, parts):
            if g != e:
                raise Violation("escape-payload", f"{p_} decoded as {g!a}, expected {e!a}")
        if len(got) != len(exp):
            raise Violation("scalar-count", f"{len(got)} tokens for {len(exp)} literals")
        return {"nontrivial": True, "labels": ["escapes"], "sample": f"\\u escapes of U+{cps[0]:04X}..U+{cps[-1]:04X} ({len(cps)} scalars, pairs for the astral ones)"}
    if case["kind"] == "scalars":
        cps = case["list"]
        parts = []
        exp = []
        for c in cps:
            ch = chr(c)
            if ch == '"':
                parts.append("'\"' @'\"'")
                exp += ['"', '"']
            elif ch == "\\":
                parts.append("'\\\\' @'\\'")
                exp += ["\\", "\\"]
            elif ch == "'":
                parts.append("\"'\" @\"'\"")
                exp += ["'", "'"]
            else:
                parts.append(f"'{ch}' @'{ch}'")
                exp += [ch, ch]
        body = "".join(chr(c) for c in cps if chr(c) not in "\n\r")
        tb = "|||\n  x" + body + "\n|||"
        src = (" ".join(parts) + "\n" + tb).encode("utf-8")
        exp.append("x" + body + "\n")
        r = lex(src, False)
        if "err" in r:
            raise Violation("scalar-rejected", f"string containing a scalar in U+{cps[0]:04X}..U+{cps[-1]:04X} rejected: {r['err']}")
        toks = [t for t in r["ok"]["tokens"] if t["k"] != "eof"]
        got = [t.get("v") for t in toks]
        if got != exp:
            for g, e in zip(got, exp):
                if g != e:
                    raise Violation("scalar-payload", f"literal for {e!a} decoded as {g!a}")
            raise Violation("scalar-count", f"{len(got)} tokens for {len(exp)} literals")
        return {"nontrivial": True, "labels": ["scalars"], "sample": f"U+{cps[0]:04X}..U+{cps[-1]:04X} ({len(cps)} scalars) in quoted, verbatim and text-block bodies"}
    lead = case["lead"]
    n = 0
    for b1 in range(0, 256):
        for tail in (b"", b"\x80", b"\x80\x80", b"\xbf\xbf\xbf"):
            seq = bytes([lead, b1]) + tail if b1 not in (0x22, 0x27, 0x5c, 0x0a) else bytes([lead]) + tail
            for tmpl in ("dq", "vsq", "comment", "tb"):
                if tmpl == "dq":
                    src = b'"a' + seq + b'z"'
                    exp = "a" + seq.decode("utf-8", "replace") + "z"
                elif tmpl == "vsq":
                    src = b"@'a" + seq + b"z'"
                    exp = "a" + seq.decode("utf-8", "replace") + "z"
                elif tmpl == "tb":
                    src = b"|||\n a" + seq + b"z\n|||"
                    exp = "a" + seq.decode("utf-8", "replace") + "z\n"
                else:
                    src = b"/* " + seq + b" */ 1"
                    exp = None
                r = lex(src, False)
                n += 1
                if "err" in r:
                    raise Violation("invalid-utf8-rejected", f"{src!r}: invalid UTF-8 inside a {tmpl} body must be replaced, got {r['err']['variant']}")
                t = r["ok"]["tokens"][0]
                if exp is not None and t.get("v") != exp:
                    raise Violation("invalid-utf8-decoding", f"{src!r} decoded as {t.get('v')!a}, lossy decoding gives {exp!a}")
                if exp is None and t["k"] != "number":
                    raise Violation("invalid-utf8-comment", f"{src!r}: comment not skipped: {t}")
    return {"nontrivial": True, "labels": ["invalid-utf8"], "sample": f"lead byte 0x{lead:02x} x 256 second bytes x 4 tails x 4 contexts ({n} inputs)"}


CHECKS = [
    Check("tiling_bytes", check_bytes, bytes_case, quick=500, thorough=20000),
    Check("token_soup_vs_reference", check_soup, soup_case, quick=600, thorough=25000),
    Check("spelled_tokens", check_spelled, spelled_tokens, quick=300, thorough=10000),
    Check("scalars_and_invalid_utf8", check_scalars, enumerate_fn=scalar_chunks, exhaustive=True),
    _fuzz.replay_check(["lex_tile"]),
]
FUZZ = [("lex_tile", 2_000_000, 400)]
