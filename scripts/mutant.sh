#!/bin/bash
# scripts/mutant.sh <patch-file> <Cxx> [tier]  -- apply a patch to /repo, run the check, always revert.
# Prints the check's tail and its exit status. Never leaves /repo modified.
set -u
patch="$1"; prop="$2"; tier="${3:-quick}"
cd /verif
if ! git -C /repo diff --quiet; then echo "/repo is dirty; refusing"; exit 2; fi
git -C /repo apply "$(realpath "$patch")" || { echo "patch does not apply"; exit 2; }
VERIF_NO_SAVE=1 ./run "$prop" "$tier" > .build/logs/mutant.$$.log 2>&1
rc=$?
git -C /repo checkout -- .
grep -E "^VIOLATION|^  signature|^C[0-9]+ |BUILD-FAILED|INCONCLUSIVE" .build/logs/mutant.$$.log | head -12
echo "exit=$rc"
rm -f .build/logs/mutant.$$.log
exit $rc
