#!/bin/bash
# scripts/thorough_all.sh [Cxx ...]  -- runs the thorough tier of the given (default: all) properties one after another and prints
# one summary line each; used to confirm that every thorough command runs to completion on the unchanged tree.
cd "$(dirname "$0")/.."
export VERIF_NO_SAVE=1 VERIF_EVIDENCE_DIR=${VERIF_EVIDENCE_DIR:-$PWD/.build/thorough-evidence}
props="$@"; [ -z "$props" ] && props="C01 C02 C03 C04 C05 C06 C07 C08 C09 C10 C11 C12 C13 C14 C15 C16 C17 C18 C19 C20"
for c in $props; do
  t0=$(date +%s)
  out=$(./run $c thorough 2>&1); rc=$?
  echo "$c thorough rc=$rc $(( $(date +%s) - t0 ))s $(echo "$out" | grep -E "^$c thorough")"
  echo "$out" | grep -E "^  [a-z_]+:|fuzz" | cut -c1-300
  if [ $rc -ne 0 ]; then echo "$out" | grep -E "^VIOLATION|signature|INCONCLUSIVE" | cut -c1-800 | head -12; fi
done
