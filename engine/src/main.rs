use std::io::{BufRead, Write};

fn main() {
    rsjv::install_panic_hook();
    let stack_mb: usize = std::env::var("RSJV_STACK_MB")
        .ok()
        .and_then(|s| s.parse().ok())
        .unwrap_or(8);
    let worker = std::thread::Builder::new()
        .stack_size(stack_mb << 20)
        .spawn(|| {
            let stdin = std::io::stdin();
            let stdout = std::io::stdout();
            let mut line = String::new();
            loop {
                line.clear();
                match stdin.lock().read_line(&mut line) {
                    Ok(0) | Err(_) => break,
                    Ok(_) => {}
                }
                let resp = match serde_json::from_str::<serde_json::Value>(&line) {
                    Ok(req) => rsjv::handle(&req),
                    Err(e) => serde_json::json!({"bad_request": e.to_string()}),
                };
                let mut out = stdout.lock();
                if serde_json::to_writer(&mut out, &resp).is_err() {
                    break;
                }
                if out.write_all(b"\n").is_err() || out.flush().is_err() {
                    break;
                }
            }
        })
        .unwrap();
    let _ = worker.join();
}
