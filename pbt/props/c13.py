"""C13 - imports resolve deterministically, load once and deliver exact content."""
import os
import re
import tempfile

from hypothesis import strategies as st

from ..core import Check, Violation
from ..gen import values as V
from ..ref import jsonstrict
from .c12 import basic_sanity, run

PROPERTY = "C13"
RULE = ("small directory trees in temp dirs: the same file name present in any subset of {importer's directory, up to 3 -J "
        "directories, a sub-directory}, every -J order, spellings (a, ./a, d/../a, absolute, through symlinks to files "
        "and to directories), nested imports whose importer lives in a -J directory, importstr/importbin of arbitrary "
        "bytes (invalid UTF-8 included), cycles; faults: missing everywhere, dangling symlink, a directory in place of "
        "the file. Every file's content traces its own load. Oracle: a resolution model (importer's directory first, then "
        "-J right-most first, absolute paths bypass), one load per canonical file however many spellings reach it, "
        "importstr = lossy UTF-8 decoding, importbin = the bytes, std.thisFile = the first spelling that loaded the file, "
        "failures exit 1 with the diagnostic located at the import expression. Non-trivial = a name resolvable in >= 2 "
        "places, a file reached through >= 2 spellings, or a fault; distinct by SHA-1 of the case")

JDIRS = ["j0", "j1", "j2"]
PLACES = ["app", "j0", "j1", "j2"]
SPELLINGS = ["plain", "dot", "updown", "abs", "symfile", "symdir"]


@st.composite
def tree_case(draw):
    jorder = draw(st.permutations(JDIRS))
    nj = draw(st.integers(0, 3))
    js = list(jorder[:nj])
    # a directory may be named more than once (scripts append their own -J to the caller's): the right-most mention decides
    for _ in range(draw(st.sampled_from([0, 0, 1, 2]))):
        if js:
            js.insert(draw(st.integers(0, len(js))), draw(st.sampled_from(js)))
    present = draw(st.lists(st.sampled_from(PLACES), min_size=0, max_size=4, unique=True))
    imports = draw(st.lists(st.tuples(st.sampled_from(SPELLINGS), st.sampled_from(PLACES)), min_size=1, max_size=4))
    mid_in = draw(st.sampled_from([None, "j0", "j1", "app", "j2"]))
    amid_in = draw(st.sampled_from([None, None, "j0", "j1", "j2"]))
    data = draw(st.binary(max_size=24))
    return {"js": js, "present": present, "imports": [list(i) for i in imports], "mid_in": mid_in, "amid_in": amid_in, "data": data.hex(),
            "kind": draw(st.sampled_from(["import", "import", "importstr", "importbin"])), "fault": draw(st.sampled_from([None, None, None, "dangling", "dir-first", "dir-first", "cycle"])),
            "dir_at": draw(st.sampled_from(PLACES))}


def lib_source(ident):
    return 'std.trace("load:%s", {id: "%s", this: std.thisFile})' % (ident, ident)


def resolve(importer_dir, spelling_path, js, exists):
    """The resolution model: importer's directory, then -J directories right-most first; absolute paths bypass."""
    if os.path.isabs(spelling_path):
        return spelling_path if exists(spelling_path) else None
    for base in [importer_dir] + list(reversed(js)):
        cand = os.path.join(base, spelling_path)
        if exists(cand):
            return cand
    return None


def check_tree(case):
    js, present, kind, fault = case["js"], case["present"], case["kind"], case["fault"]
    data = bytes.fromhex(case["data"])
    with tempfile.TemporaryDirectory(prefix="c13-") as root:
        root = os.path.realpath(root)
        for dname in PLACES + ["app/sub", "links"]:
            os.makedirs(os.path.join(root, dname), exist_ok=True)
        name = "lib.libsonnet" if kind == "import" else "blob.bin"
        for place in present:
            p = os.path.join(root, place, name)
            if kind == "import":
                open(p, "w").write(lib_source(place))
            else:
                open(p, "wb").write(place.encode() + b":" + data)
        if fault == "dir-first":
            # a directory with the file's name sits in the importer's directory (or in one of the other places)
            dir_at = case.get("dir_at", "app")
            try:
                os.remove(os.path.join(root, dir_at, name))
            except FileNotFoundError:
                pass
            os.mkdir(os.path.join(root, dir_at, name))
        if fault == "dangling":
            os.symlink("nowhere", os.path.join(root, "app", "dangling.libsonnet"))
        # symlinks: links/file -> the app copy (if any) or first present copy; links/dir -> that directory
        target_place = present[0] if present else None
        if target_place:
            os.symlink(os.path.join(root, target_place, name), os.path.join(root, "links", "f_" + name))
            os.symlink(os.path.join(root, target_place), os.path.join(root, "links", "d"))
        lines = []
        expected = []
        for i, (sp, place) in enumerate(case["imports"]):
            if sp == "plain":
                path = name
            elif sp == "dot":
                path = "./" + name
            elif sp == "updown":
                path = "sub/../" + name
            elif sp == "abs":
                path = os.path.join(root, place, name)
            elif sp == "symfile":
                path = os.path.join(root, "links", "f_" + name)
            else:
                path = os.path.join(root, "links", "d", name)
            lines.append(f"  r{i}: {kind} {V.jsonnet_string(path)},")
            expected.append(path)
        if fault == "dangling":
            lines.append("  dang: import 'dangling.libsonnet',")
        if fault == "cycle":
            open(os.path.join(root, "app", "cyc_a.libsonnet"), "w").write("{a: (import 'cyc_b.libsonnet').b}")
            open(os.path.join(root, "app", "cyc_b.libsonnet"), "w").write("{b: (import 'cyc_a.libsonnet').a}")
            lines.append("  cyc: (import 'cyc_a.libsonnet').a,")
        if case["mid_in"] and kind == "import":
            # an importer living in mid_in imports the name: its own directory is searched first
            open(os.path.join(root, case["mid_in"], "mid.libsonnet"), "w").write("{via_mid: import 'lib.libsonnet'}")
            mid_spelling = "mid.libsonnet" if case["mid_in"] in js or case["mid_in"] == "app" else os.path.join(root, case["mid_in"], "mid.libsonnet")
            lines.append(f"  zmid: import {V.jsonnet_string(mid_spelling)},")  # evaluated after r0..rN (fields are manifested in sorted order)
        amid_res_expected = None
        if case.get("amid_in") and kind == "import" and case["amid_in"] != case["mid_in"]:
            # a second nested importer, evaluated *before* r0..rN (its field sorts first)
            open(os.path.join(root, case["amid_in"], "amid.libsonnet"), "w").write("{via_amid: import 'lib.libsonnet'}")
            amid_spelling = os.path.join(root, case["amid_in"], "amid.libsonnet")
            lines.insert(0, f"  amid: import {V.jsonnet_string(amid_spelling)},")
            amid_res_expected = "pending"
        main = "{\n" + "\n".join(lines) + "\n}\n"
        open(os.path.join(root, "app", "main.jsonnet"), "w").write(main)
        args = []
        for j in js:
            args += ["-J", j]
        args.append("app/main.jsonnet")
        rc, out, err = run(args, root)
        what = f"tree present={present} -J {js} kind={kind} fault={fault} main={main!r}"
        basic_sanity(rc, out, err, what)
        errt = err.decode("utf-8", "replace")
        # the report of the failure itself (std.trace output has its own location lines)
        failure_report = errt[errt.rfind("error:"):] if "error:" in errt else errt

        def exists(p):
            return os.path.exists(os.path.join(root, p))

        # model
        resolved = []
        for path in expected:
            r = resolve("app", path, js, exists)
            resolved.append(r)
        any_missing = any(r is None for r in resolved)
        is_dir = any(r is not None and os.path.isdir(os.path.join(root, r)) for r in resolved)
        mid_res = None
        if case["mid_in"] and kind == "import":
            mid_file = resolve("app", mid_spelling, js, exists)
            if mid_file is None:
                any_missing = True
            else:
                mid_dir = os.path.dirname(mid_file)
                mid_res = resolve(mid_dir, "lib.libsonnet", js, exists)
                if mid_res is None:
                    any_missing = True
                elif os.path.isdir(os.path.join(root, mid_res)):
                    is_dir = True
        amid_res = None
        if amid_res_expected:
            amid_res = resolve(os.path.join(root, case["amid_in"]), "lib.libsonnet", js, exists)
            if amid_res is None:
                any_missing = True
            elif os.path.isdir(os.path.join(root, amid_res)):
                is_dir = True
        should_fail = any_missing or fault in ("dangling", "cycle") or is_dir
        nt = len(present) >= 2 or fault is not None or len(set(expected)) >= 2
        if should_fail:
            if is_dir and not any_missing and fault not in ("dangling", "cycle"):
                # the first location where the name exists decides; a directory there is an unreadable file: an error
                # at the import site, not a silent fall-through to a lower-priority location
                if rc != 1:
                    raise Violation("import-dir-exit", f"a directory is the first match of an import, expected exit 1, got {rc}: {what}")
                if not re.search(r"--> .*(main\.jsonnet|mid\.libsonnet):\d+:\d+", failure_report):
                    raise Violation("import-failure-location", f"the failure is not located at an import site: {errt[:400]!r} for {what}")
                return {"nontrivial": True, "labels": ["dir-in-place-of-file", f"rc={rc}"]}
            if rc != 1:
                raise Violation("import-failure-exit", f"expected exit 1 (missing file / dangling link / cycle), got {rc}: {what}")
            if not re.search(r"--> .*(main\.jsonnet|mid\.libsonnet|cyc_[ab]\.libsonnet):\d+:\d+", failure_report):
                raise Violation("import-failure-location", f"the failure is not located at an import site: {errt[:400]!r} for {what}")
            if any_missing and fault is None:
                # the reported line is the line of a failing import in main (lines are 1-based; line 1 is '{')
                m = re.search(r"--> .*main\.jsonnet:(\d+):(\d+)", failure_report)
                off = 3 if amid_res_expected else 2
                bad_lines = {i + off for i, r in enumerate(resolved) if r is None}
                if amid_res_expected and amid_res is None:
                    m = None
                if case["mid_in"] and kind == "import" and (mid_res is None):
                    bad_lines.add(len(expected) + off)
                    if re.search(r"--> .*mid\.libsonnet:1:", failure_report):
                        m = None
                if m and int(m.group(1)) not in bad_lines:
                    raise Violation("import-failure-location", f"failure reported at main.jsonnet:{m.group(1)}, failing imports are on lines {sorted(bad_lines)}: {what}")
            return {"nontrivial": True, "labels": ["fault" if fault else "missing"], "sample": {"present": present, "js": js, "imports": case["imports"], "fault": fault}}
        if rc != 0:
            raise Violation("import-unexpected-failure", f"expected success, got exit {rc}: {errt[-400:]!r} for {what}")
        got = jsonstrict.loads_typed(out.decode("utf-8"))
        fields = dict((k, v) for k, v in got["o"])
        first_spelling = {}
        loads_expected = {}
        if amid_res is not None:
            first_spelling[os.path.realpath(os.path.join(root, amid_res))] = amid_res
        for i, (path, r) in enumerate(zip(expected, resolved)):
            place = os.path.relpath(os.path.realpath(os.path.join(root, r)), root).split(os.sep)[0]
            val = fields[f"r{i}"]
            if kind == "import":
                vd = dict((k, v) for k, v in val["o"])
                if vd["id"] != place:
                    raise Violation("import-resolution", f"r{i} = import {path!r} resolved to the copy in {vd['id']!r}, model says {place!r}: {what}")
                canon = os.path.realpath(os.path.join(root, r))
                first_spelling.setdefault(canon, r)
                loads_expected[place] = 1
                if vd["this"] != first_spelling[canon]:
                    raise Violation("thisfile", f"r{i}: std.thisFile = {vd['this']!r}, the file was first loaded as {first_spelling[canon]!r}: {what}")
            elif kind == "importstr":
                exp = (place.encode() + b":" + data).decode("utf-8", "replace")
                if val != exp:
                    raise Violation("importstr-content", f"r{i}: importstr gives {val!a}, expected {exp!a}: {what}")
            else:
                exp = {"a": [V.num(b) for b in place.encode() + b":" + data]}
                if not V.same(val, exp):
                    raise Violation("importbin-content", f"r{i}: importbin gives {V.show(val)[:200]}, expected the {len(data) + len(place) + 1} bytes: {what}")
        if amid_res is not None:
            place = os.path.relpath(os.path.realpath(os.path.join(root, amid_res)), root).split(os.sep)[0]
            vd = dict((k, v) for k, v in dict((k, v) for k, v in fields["amid"]["o"])["via_amid"]["o"])
            if vd["id"] != place:
                raise Violation("import-resolution", f"import from {case['amid_in']}/amid.libsonnet resolved to {vd['id']!r}, model says {place!r}: {what}")
            loads_expected[place] = 1
        if mid_res is not None:
            place = os.path.relpath(os.path.realpath(os.path.join(root, mid_res)), root).split(os.sep)[0]
            vd = dict((k, v) for k, v in dict((k, v) for k, v in fields["zmid"]["o"])["via_mid"]["o"])
            if vd["id"] != place:
                raise Violation("import-resolution", f"import from {case['mid_in']}/mid.libsonnet resolved to {vd['id']!r}, model says {place!r}: {what}")
            loads_expected[place] = 1
        if kind == "import":
            for place in loads_expected:
                n = errt.count(f"TRACE: load:{place}")
                if n != 1:
                    raise Violation("import-load-count", f"file {place}/lib.libsonnet was evaluated {n} times (reached through {expected}): {what}")
        return {"nontrivial": nt, "labels": [kind, f"J{len(js)}"], "sample": {"present": present, "js": js, "imports": case["imports"]}}


# ---------------------------------------------------------------------------------------------
# exact content at sizes around read-buffer boundaries: a multi-byte (or invalid) sequence straddling 4 KiB ... 256 KiB
BOUNDARIES = [4096, 8192, 16384, 32768, 65536, 131072, 262144]
STRADDLERS = ["c3a9", "e282ac", "f09f9880", "e4b8ad", "c3", "e282", "f09f98", "ff", "80", "eda080", "c080", "f4908080", "0d0a", "00"]


@st.composite
def content_case(draw):
    b = draw(st.sampled_from(BOUNDARIES + [65536, 65536]))
    return {"boundary": b, "back": draw(st.integers(0, 4)), "what": draw(st.sampled_from(STRADDLERS)), "extra": draw(st.integers(0, 6)),
            "second": draw(st.sampled_from([None, None, 2, 3])) if b <= 65536 else None, "fill": draw(st.sampled_from(["a", "xy", "0123456789", "\n", " "])),
            "spelling": draw(st.sampled_from(["plain", "dot", "abs", "jdir"]))}


def check_content(case):
    import hashlib
    b = case["boundary"]
    unit = bytes.fromhex(case["what"])
    fill = case["fill"].encode()
    start = b - case["back"]
    head = (fill * (start // len(fill) + 1))[:start]
    data = head + unit + (fill * 8)[:case["extra"]]
    if case["second"]:
        # the same sequence again across the next multiple of the boundary
        start2 = case["second"] * b - case["back"]
        if start2 > len(data):
            data = data + (fill * ((start2 - len(data)) // len(fill) + 1))[:start2 - len(data)] + unit + fill[:1]
    text = data.decode("utf-8", "replace")
    with tempfile.TemporaryDirectory(prefix="c13c-") as d:
        d = os.path.realpath(d)
        os.mkdir(os.path.join(d, "lib"))
        where = os.path.join(d, "lib" if case["spelling"] == "jdir" else "", "data.bin")
        with open(where, "wb") as f:
            f.write(data)
        path = {"plain": "data.bin", "dot": "./data.bin", "abs": where, "jdir": "data.bin"}[case["spelling"]]
        jargs = ["-J", "lib"] if case["spelling"] == "jdir" else []
        with open(os.path.join(d, "main.jsonnet"), "w") as f:
            f.write("importstr '%s'" % path)
        with open(os.path.join(d, "bin.jsonnet"), "w") as f:
            f.write("local b = importbin '%s'; {n: std.length(b), around: b[%d:%d], sum: std.md5(std.base64(b)), "
                    "md5: std.md5(importstr '%s'), same: std.decodeUTF8(b) == importstr '%s'}" % (path, max(0, start - 2), start + len(unit) + 2, path, path))
        what = f"{len(data)}-byte file with {case['what']} at offset {start} (boundary {b}), spelled {case['spelling']}"
        rc, out, err = run(jargs + ["-S", "--no-trailing-newline", "main.jsonnet"], d)
        basic_sanity(rc, out, err, what)
        if rc != 0:
            raise Violation("importstr-fails", f"importstr of a {what} failed: {err.decode('utf-8', 'replace')[-300:]}")
        if out != text.encode("utf-8"):
            got = out.decode("utf-8", "replace")
            i = next((k for k in range(min(len(got), len(text))) if got[k] != text[k]), min(len(got), len(text)))
            raise Violation("importstr-content", f"importstr of a {what}: {len(got)} characters, expected {len(text)}; first difference at character {i}: "
                                                 f"{got[max(0, i - 3):i + 4]!a} vs {text[max(0, i - 3):i + 4]!a}")
        rc, out, err = run(jargs + ["-s", "2000", "bin.jsonnet"], d)
        basic_sanity(rc, out, err, what)
        if rc != 0:
            raise Violation("importbin-fails", f"importbin of a {what} failed: {err.decode('utf-8', 'replace')[-300:]}")
        import json as _json
        got = _json.loads(out)
        import base64
        exp = {"n": len(data), "around": list(data[max(0, start - 2):start + len(unit) + 2]), "sum": hashlib.md5(base64.b64encode(data)).hexdigest(), "md5": hashlib.md5(text.encode("utf-8")).hexdigest(), "same": True}
        if got != exp:
            raise Violation("importbin-content", f"importbin / importstr of a {what}: {got}, expected {exp}")
    return {"nontrivial": True, "labels": [f"b={b}", case["what"]], "sample": what}


# ---------------------------------------------------------------------------------------------
# importers without a directory of their own (-e code, standard input, external / top-level code): absolute paths bypass the
# search, relative ones are looked up in the -J directories, right-most first
@st.composite
def virtual_case(draw):
    return {"importer": draw(st.sampled_from(["-e", "stdin", "ext-code", "tla-code", "ext-code-file"])), "js": draw(st.lists(st.sampled_from(JDIRS), max_size=3)),
            "present": draw(st.lists(st.sampled_from(JDIRS + ["cwd"]), max_size=3, unique=True)), "kind": draw(st.sampled_from(["import", "importstr", "importbin"])),
            "path": draw(st.sampled_from(["abs", "abs", "abs-missing", "rel", "rel", "abs-dotdot"])), "target": draw(st.sampled_from(JDIRS + ["cwd"]))}


def check_virtual(case):
    kind = case["kind"]
    with tempfile.TemporaryDirectory(prefix="c13v-") as d:
        d = os.path.realpath(d)
        for j in JDIRS:
            os.mkdir(os.path.join(d, j))
        for p in set(case["present"]) | ({case["target"]} if case["path"] in ("abs", "abs-dotdot") else set()):
            with open(os.path.join(d, "" if p == "cwd" else p, "lib.libsonnet"), "w") as f:
                f.write('"%s"' % p if kind == "import" else "content of %s" % p)
        tdir = os.path.join(d, "" if case["target"] == "cwd" else case["target"])
        if case["path"] == "abs":
            path, expect = os.path.join(tdir, "lib.libsonnet"), case["target"]
        elif case["path"] == "abs-dotdot":
            path, expect = os.path.join(d, "j0", "..", "" if case["target"] == "cwd" else case["target"], "lib.libsonnet"), case["target"]
        elif case["path"] == "abs-missing":
            path, expect = os.path.join(d, "nowhere", "lib.libsonnet"), None
        else:
            path = "lib.libsonnet"
            expect = next((j for j in reversed(case["js"]) if j in case["present"]), None)
            if expect is None and "cwd" in case["present"]:
                return {"labels": ["not-judged:relative-from-virtual-importer-with-file-in-cwd"]}
        code = "%s '%s'" % (kind, path)
        jargs = [x for j in case["js"] for x in ("-J", j)]
        stdin = None
        if case["importer"] == "-e":
            args = jargs + ["-e", code]
        elif case["importer"] == "stdin":
            args, stdin = jargs + ["-"], code.encode()
        elif case["importer"] == "ext-code":
            args = jargs + ["--ext-code", "x=" + code, "-e", "std.extVar('x')"]
        elif case["importer"] == "tla-code":
            args = jargs + ["--tla-code", "x=" + code, "-e", "function(x) x"]
        else:
            os.mkdir(os.path.join(d, "extdir"))
            with open(os.path.join(d, "extdir", "ext.jsonnet"), "w") as f:
                f.write(code)
            args = jargs + ["--ext-code-file", "x=extdir/ext.jsonnet", "-e", "std.extVar('x')"]
            if case["path"] == "rel":
                return {"labels": ["not-judged:ext-code-file-has-a-directory"]}
        rc, out, err = run(args, d, stdin=stdin)
        what = f"{code!r} from {case['importer']} with -J {case['js']}, lib.libsonnet present in {sorted(case['present'])}"
        basic_sanity(rc, out, err, what)
        if expect is None:
            if rc != 1:
                raise Violation("virtual-import-exit", f"{what}: nothing to resolve to, expected exit 1, got {rc}: {out[:100]!r}")
            return {"nontrivial": True, "labels": [case["importer"], case["path"], "missing"], "sample": what}
        if rc != 0:
            raise Violation("virtual-import-fails", f"{what}: expected the copy in {expect!r}, got exit {rc}: {err.decode('utf-8', 'replace')[-300:]}")
        import json as _json
        got = _json.loads(out)
        want = expect if kind == "import" else ("content of %s" % expect if kind == "importstr" else list(("content of %s" % expect).encode()))
        if got != want:
            raise Violation("virtual-import-resolution", f"{what}: got {got!r}, expected {want!r}")
    return {"nontrivial": True, "labels": [case["importer"], case["path"]], "sample": what}


CHECKS = [
    Check("import_trees", check_tree, tree_case, quick=250, thorough=5000),
    Check("content_at_buffer_boundaries", check_content, content_case, quick=12, thorough=400),
    Check("importers_without_a_directory", check_virtual, virtual_case, quick=60, thorough=1500),
]
