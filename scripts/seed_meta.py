#!/usr/bin/env python3
"""Writes seeded/<id>/meta.json from the agent's description, the confirmation log and the check results,
and prints the table for DESIGN.md Appendix J."""
import glob, json, os, re
ROOT = os.path.dirname(os.path.dirname(os.path.abspath(__file__)))
rows = []
for d in sorted(glob.glob(os.path.join(ROOT, "seeded", "C*-[A-D]"))):
    sid = os.path.basename(d)
    prop = sid.split("-")[0]
    am = json.load(open(os.path.join(d, "agent_meta.json"))) if os.path.exists(os.path.join(d, "agent_meta.json")) else {}
    log = open(os.path.join(d, "confirm.log")).read() if os.path.exists(os.path.join(d, "confirm.log")) else ""
    suite = re.search(r"suite with change: (.*)", log)
    d1 = re.search(r"demo with change: exit (\d+)", log)
    d0 = re.search(r"demo without change: exit (\d+)", log)
    results = []
    caught_by = []
    if os.path.exists(os.path.join(d, "check_result.txt")):
        for line in open(os.path.join(d, "check_result.txt")):
            m = re.match(r"(C\d+) exit=(\d+) signatures: (.*)", line.strip())
            if m:
                results.append({"check": m.group(1), "exit": int(m.group(2)), "signatures": m.group(3).split()})
                if m.group(2) == "1":
                    caught_by.append(m.group(1))
    meta = {
        "id": sid,
        "property": prop,
        "summary": am.get("summary", ""),
        "needs": am.get("needs", ""),
        "written_by": "independent sub-agent given only the property text and a scratch worktree",
        "confirmed_by_me": {
            "how": "scripts/seed_confirm.sh: patch applied in the scratch worktree /tmp/seed/%s, `cargo test --workspace --no-fail-fast --offline`, demonstration with and without the change" % prop,
            "suite_with_change": suite.group(1) if suite else None,
            "demo_exit_with_change": int(d1.group(1)) if d1 else None,
            "demo_exit_without_change": int(d0.group(1)) if d0 else None,
        },
        "checks_run": results,
        "caught_by": caught_by,
        "agent_report": am.get("ran", ""),
    }
    json.dump(meta, open(os.path.join(d, "meta.json"), "w"), indent=1)
    rows.append((sid, (am.get("summary", "") or "").replace("|", "/").replace("\n", " ")[:170], ", ".join(f"{r['check']}: " + ("caught (" + ", ".join(r["signatures"][:2]) + ")" if r["exit"] == 1 else "MISSED" if r["exit"] == 0 else f"exit {r['exit']}") for r in results)))
print("| seed | change (agent's summary, shortened) | quick check verdict |")
print("|---|---|---|")
for r in rows:
    print("| %s | %s | %s |" % r)
