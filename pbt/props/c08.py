"""C08 - == is a structural equivalence and < a total order, mutually consistent."""
from hypothesis import strategies as st

from ..core import Check, Violation
from ..gen import values as V
from .. import util

PROPERTY = "C08"
RULE = ("triples of values built from a base value and mutated copies (1 / 1.0 / 2-1, 0 / -0, strings built by "
        "concatenation, arrays built by comprehension / + / slices / makeArray, objects with permuted fields, hidden "
        "fields and inheritance, prefix pairs, strings differing first at a non-ASCII / astral position, arrays of "
        "different lengths sharing a prefix, lazily failing elements after the deciding position); every relation "
        "(== != std.equals < <= > >= std.__compare std.__compare_array, both argument orders) is evaluated separately "
        "and compared with a reference implementation of JSON equality and of the specified order (numbers, strings by "
        "code point, arrays lexicographically; everything else an error). Non-trivial = the pair is "
        "equal-but-differently-built, shares a prefix >= 1, contains non-ASCII strings or has a lazily failing tail; "
        "distinct by SHA-1 of the case")

JS = V.jsonnet_string
ERR = "ERR"

NUMS = [0.0, -0.0, 1.0, -1.0, 2.0, 0.5, 1e10, 2.0 ** 53, 2.0 ** 53 + 2, 5e-324, -5e-324, 1.7976931348623157e308, 3.0, 10.0]
STRS = ["", "a", "ab", "b", "aa", "B", "\u00e9", "\u00e9a", "e", "\u4e2d", "\U0001f600", "\U00010000", "\uffff", "a\U0001f600", "a\uffff", "~", "\x7f", "\u00e1"]


def scalars():
    return st.one_of(st.none(), st.booleans(), st.sampled_from(NUMS).map(V.num), st.sampled_from(STRS))


def values(max_leaves=6):
    def ext(ch):
        return st.one_of(st.lists(ch, max_size=3).map(lambda l: {"a": l}),
                         st.lists(st.tuples(st.sampled_from(["a", "b", "c", "\u00e9"]), ch), max_size=3, unique_by=lambda kv: kv[0]).map(
                             lambda l: {"o": [[k, v] for k, v in sorted(l)]}))
    return st.recursive(scalars(), ext, max_leaves=max_leaves)


@st.composite
def mutate(draw, v):
    """A value related to v: equal, or differing late, or a prefix/extension."""
    c = draw(st.integers(0, 6))
    if c <= 1:
        return v
    if V.is_arr(v):
        items = list(v["a"])
        if c == 2 and items:
            return {"a": items[:draw(st.integers(0, len(items)))]}
        if c == 3:
            return {"a": items + [draw(scalars())]}
        if items:
            i = draw(st.integers(0, len(items) - 1))
            items[i] = draw(mutate(items[i]))
            return {"a": items}
        return v
    if V.is_obj(v):
        fields = [list(f) for f in v["o"]]
        if c == 2 and fields:
            del fields[draw(st.integers(0, len(fields) - 1))]
            return {"o": fields}
        if c == 3:
            k = draw(st.sampled_from(["a", "b", "c", "d"]))
            if k not in [f[0] for f in fields]:
                fields.append([k, draw(scalars())])
            return {"o": sorted(fields)}
        if fields:
            i = draw(st.integers(0, len(fields) - 1))
            fields[i][1] = draw(mutate(fields[i][1]))
            return {"o": fields}
        return v
    if isinstance(v, str) and c <= 4:
        return draw(st.sampled_from([v + "a", v[:-1], v + "\U0001f600", v + "\uffff", v]))
    if V.is_num(v) and c <= 4:
        x = V.h2f(v["n"])
        return V.num(draw(st.sampled_from([x, -x, x + 1, x - 1, 0.0, -0.0])))
    return draw(scalars())


@st.composite
def case(draw):
    a = draw(values())
    b = draw(mutate(a))
    c = draw(st.one_of(mutate(a), mutate(b), values(3)))
    spell = draw(st.lists(st.integers(0, 1000), min_size=12, max_size=12))
    lazy = draw(st.booleans())
    return {"a": a, "b": b, "c": c, "spell": spell, "lazy": lazy}


# ---------------------------------------------------------------------------------------------
# reference

def ref_eq(a, b):
    if V.is_num(a) and V.is_num(b):
        return V.h2f(a["n"]) == V.h2f(b["n"])
    if V.is_arr(a) and V.is_arr(b):
        return len(a["a"]) == len(b["a"]) and all(ref_eq(x, y) for x, y in zip(a["a"], b["a"]))
    if V.is_obj(a) and V.is_obj(b):
        da, db = dict(map(tuple, a["o"])), dict(map(tuple, b["o"]))
        return set(da) == set(db) and all(ref_eq(da[k], db[k]) for k in da)
    if isinstance(a, dict) or isinstance(b, dict):
        return False
    return type(a) is type(b) and a == b


def ref_cmp(a, b):
    if V.is_num(a) and V.is_num(b):
        x, y = V.h2f(a["n"]), V.h2f(b["n"])
        return -1 if x < y else (1 if x > y else 0)
    if isinstance(a, str) and isinstance(b, str):
        return -1 if a < b else (1 if a > b else 0)  # Python compares code points
    if V.is_arr(a) and V.is_arr(b):
        for x, y in zip(a["a"], b["a"]):
            c = ref_cmp(x, y)
            if c != 0:
                return c
        la, lb = len(a["a"]), len(b["a"])
        return -1 if la < lb else (1 if la > lb else 0)
    return ERR


# ---------------------------------------------------------------------------------------------
# spellings

class Spell:
    def __init__(self, seq):
        self.seq = seq
        self.i = 0

    def pick(self, n):
        v = self.seq[self.i % len(self.seq)]
        self.i += 1
        return v % n

    def expr(self, v, depth=0):
        if v is None or isinstance(v, bool):
            return V.to_jsonnet(v)
        if V.is_num(v):
            x = V.h2f(v["n"])
            lit = "(" + V.jsonnet_number(x) + ")"
            c = self.pick(4)
            if c == 1 and abs(x) < 1e6 and x == int(x) and (x != 0):
                return f"(({lit} + 1) - 1)"
            if c == 2 and x != 0:
                return f"({lit} * 1)"
            if c == 3 and x == int(x) and abs(x) < 1e6 and x != 0:
                return f"({int(x)}.0)" if x > 0 else lit
            return lit
        if isinstance(v, str):
            c = self.pick(4)
            if c == 1:
                return f"('' + {JS(v)})"
            if c == 2 and len(v) >= 2:
                return f"({JS(v[:1])} + {JS(v[1:])})"
            if c == 3:
                return f"std.join('', std.stringChars({JS(v)}))"
            return JS(v)
        if V.is_arr(v):
            items = [self.expr(x, depth + 1) for x in v["a"]]
            lit = "[" + ", ".join(items) + "]"
            c = self.pick(5)
            n = len(items)
            if c == 1:
                return f"[x for x in {lit}]"
            if c == 2 and n >= 1:
                k = self.pick(n + 1)
                return f"({lit}[:{k}] + {lit}[{k}:])"
            if c == 3:
                return f"std.makeArray({n}, function(i) {lit}[i])"
            if c == 4:
                return f"std.map(function(x) x, {lit})"
            return lit
        fields = [(k, self.expr(x, depth + 1)) for k, x in v["o"]]
        c = self.pick(7)
        if c >= 5:
            # hidden fields named like the *other* operands' visible fields, with values taken from this object
            have = {k for k, _ in fields}
            extra = []
            for name in ["a", "b", "c", "d", "\u00e9"]:
                if name not in have and self.pick(2) == 0:
                    val = fields[self.pick(len(fields))][1] if fields and self.pick(2) == 0 else "1"
                    extra.append(f"{JS(name)}:: {val}")
            body = ", ".join([f"{JS(k)}: {e}" for k, e in fields] + extra)
            return "{" + body + "}"
        if c == 1:
            fields = list(reversed(fields))
        body = ", ".join(f"{JS(k)}: {e}" for k, e in fields)
        if c == 2:
            return "{" + body + (", " if body else "") + "hidden_h:: 1}"
        if c == 3 and len(fields) >= 2:
            return "({" + ", ".join(f"{JS(k)}: {e}" for k, e in fields[:1]) + "} + {" + ", ".join(f"{JS(k)}: {e}" for k, e in fields[1:]) + "})"
        if c == 4 and fields:
            k0, e0 = fields[0]
            return "({" + f"{JS(k0)}: null, hidden_h:: 2" + "} + {" + body + "})"
        return "{" + body + "}"


def check_relations(case):
    a, b, c = case["a"], case["b"], case["c"]
    sp = Spell(case["spell"])
    ea, eb, ec = sp.expr(a), sp.expr(b), sp.expr(c)
    ea2 = sp.expr(a)
    pairs = [("a", "b", a, b, ea, eb), ("b", "c", b, c, eb, ec), ("a", "c", a, c, ea, ec), ("a", "a'", a, a, ea, ea2)]
    exprs, exps, whats = [], [], []

    def add(e, exp):
        exprs.append(e)
        exps.append(exp)

    for _, _, x, y, ex, ey in pairs:
        eq = ref_eq(x, y)
        cm = ref_cmp(x, y)
        add(f"{ex} == {ey}", eq)
        add(f"{ey} == {ex}", eq)
        add(f"{ex} != {ey}", not eq)
        add(f"std.equals({ex}, {ey})", eq)
        add(f"std.assertEqual({ex}, {ey})", True if eq else ERR)
        add(f"{ex} < {ey}", ERR if cm == ERR else cm < 0)
        add(f"{ex} <= {ey}", ERR if cm == ERR else cm <= 0)
        add(f"{ex} > {ey}", ERR if cm == ERR else cm > 0)
        add(f"{ex} >= {ey}", ERR if cm == ERR else cm >= 0)
        add(f"{ey} > {ex}", ERR if cm == ERR else cm < 0)
        add(f"std.__compare({ex}, {ey})", ERR if cm == ERR else float(cm))
        if V.is_arr(x) and V.is_arr(y):
            add(f"std.__compare_array({ex}, {ey})", ERR if cm == ERR else float(cm))
            add(f"std.__array_less({ex}, {ey})", ERR if cm == ERR else cm < 0)
            add(f"std.__array_greater_or_equal({ex}, {ey})", ERR if cm == ERR else cm >= 0)
        if cm != ERR and eq != (cm == 0):
            raise RuntimeError("reference inconsistent")
    # operands that share their element thunks (the same value on both sides, a common prefix kept in one variable, a slice of
    # the other operand), untouched or already evaluated: sharing must not decide anything the values do not decide
    def shared(prefix, lhs, rhs, x, y):
        eq, cm = ref_eq(x, y), ref_cmp(x, y)
        for force in (False, True):
            head = prefix + (" local forced = std.length(std.toString(v));" if force else "")
            wrap = (lambda body: f"{head} if forced >= 0 then {body} else null") if force else (lambda body: f"{head} {body}")
            add(wrap(f"{lhs} == {rhs}"), eq)
            add(wrap(f"{lhs} != {rhs}"), not eq)
            add(wrap(f"std.equals({lhs}, {rhs})"), eq)
            add(wrap(f"{lhs} < {rhs}"), ERR if cm == ERR else cm < 0)
            add(wrap(f"{lhs} <= {rhs}"), ERR if cm == ERR else cm <= 0)
            add(wrap(f"{lhs} >= {rhs}"), ERR if cm == ERR else cm >= 0)
            add(wrap(f"std.__compare({lhs}, {rhs})"), ERR if cm == ERR else float(cm))

    # both operands already evaluated (by an earlier use in the same program) when they are compared
    def evaluated_first(ex, ey, x, y):
        eq, cm = ref_eq(x, y), ref_cmp(x, y)
        head = f"local x = {ex}, y = {ey}; local forced = std.length(std.toString([x, y])); if forced >= 0 then "
        add(head + "x == y else null", eq)
        add(head + "x < y else null", ERR if cm == ERR else cm < 0)
        add(head + "x >= y else null", ERR if cm == ERR else cm >= 0)
        add(head + "std.__compare(x, y) else null", ERR if cm == ERR else float(cm))
        add(head + "std.equals(y, x) else null", eq)
        if V.is_arr(x) and V.is_arr(y):
            add(head + "std.__compare_array(x, y) else null", ERR if cm == ERR else float(cm))
            add(head + "std.__array_less(x, y) else null", ERR if cm == ERR else cm < 0)
            add(head + "std.__array_less_or_equal(x, y) else null", ERR if cm == ERR else cm <= 0)
            add(head + "std.__array_greater(x, y) else null", ERR if cm == ERR else cm > 0)
            add(head + "std.__array_greater_or_equal(y, x) else null", ERR if cm == ERR else cm <= 0)

    evaluated_first(ea, eb, a, b)
    evaluated_first(eb, ec, b, c)
    shared(f"local v = {ea};", "v", "v", a, a)
    if V.is_arr(a) and V.is_arr(b):
        ia, ib = a["a"], b["a"]
        p = 0
        while p < min(len(ia), len(ib)) and ref_eq(ia[p], ib[p]):
            p += 1
        if p >= 1:
            pre = "[" + ", ".join(sp.expr(x) for x in ia[:p]) + "]"
            ra = "[" + ", ".join(sp.expr(x) for x in ia[p:]) + "]"
            rb = "[" + ", ".join(sp.expr(x) for x in ib[p:]) + "]"
            shared(f"local v = {pre};", f"(v + {ra})", f"(v + {rb})", a, b)
        if ia:
            k = sp.pick(len(ia) + 1)
            shared(f"local v = {ea};", f"v[:{k}]", "v", {"a": ia[:k]}, a)
            shared(f"local v = {ea};", "v", f"std.map(function(x) x, v)", a, a)
    if V.is_obj(a):
        shared(f"local v = {ea};", "v", "(v + {})", a, a)
        shared(f"local v = {ea};", "{w: v}", "{w: v}", {"o": [["w", a]]}, {"o": [["w", a]]})
    nt_lazy = False
    # lazily failing tails beyond the deciding position
    if case["lazy"] and V.is_arr(a) and V.is_arr(b):
        ia, ib = a["a"], b["a"]
        p = 0
        while p < min(len(ia), len(ib)) and ref_eq(ia[p], ib[p]):
            p += 1
        if p < min(len(ia), len(ib)):
            la = "[" + ", ".join([sp.expr(x) for x in ia[:p + 1]] + ['error "LAZY"']) + "]"
            lb = "[" + ", ".join([sp.expr(x) for x in ib[:p + 1]] + ['error "LAZY"']) + "]"
            add(f"{la} == {lb}", False)
            add(f"{la} != {lb}", True)
            # the order looks at the common prefix first (it may already be unordered, e.g. null vs null)
            cm = ref_cmp({"a": ia[:p + 1]}, {"a": ib[:p + 1]})
            if cm != ERR:
                add(f"{la} < {lb}", cm < 0)
                add(f"std.__compare({la}, {lb})", float(cm))
            nt_lazy = True
        # different lengths: unequal without evaluating any element
        if len(ia) != len(ib):
            la = "[" + ", ".join(['error "LAZY"'] * len(ia)) + "]"
            lb = "[" + ", ".join(['error "LAZY"'] * len(ib)) + "]"
            add(f"{la} == {lb}", False)
            nt_lazy = True
    res = util.eval_exprs(exprs, want=["typed"])
    for e, exp, r in zip(exprs, exps, res):
        op = next((o for o in ["std.__compare_array", "std.__compare", "std.__array", "std.equals", "std.assertEqual", " == ", " != ", " <= ", " >= ", " < ", " > "] if o in e), "?").strip()
        if exp == ERR:
            if util.is_ok(r):
                raise Violation(f"no-error:{op}", f"{e[:300]} must be an error (no order / not equal), got {V.show(util.typed(r))}")
            continue
        if not util.is_ok(r):
            raise Violation(f"error:{op}", f"{e[:300]} failed ({r['err'].get('variant')}: {r['err'].get('detail')}), expected {exp!r}")
        got = util.typed(r)
        want = V.num(exp) if isinstance(exp, float) else exp
        if got != want:
            raise Violation(f"wrong:{op}", f"{e[:300]} = {V.show(got)}, expected {exp!r}")
    nonascii = any(isinstance(x, str) and any(ord(ch) > 127 for ch in x) for v in (a, b) for x in V.walk(v))
    shares_prefix = V.is_arr(a) and V.is_arr(b) and a["a"] and b["a"] and ref_eq(a["a"][0], b["a"][0])
    nt = (ref_eq(a, b) and ea != eb) or shares_prefix or nonascii or nt_lazy
    return {"nontrivial": bool(nt), "labels": ["eq" if ref_eq(a, b) else "ne", "lazy" if nt_lazy else "strict"],
            "sample": {"a": ea[:120], "b": eb[:120]}}


# explicit error cases for values without an order / functions
FIXED = [
    ("null < null", ERR), ("true < false", ERR), ("{} < {}", ERR), ("{a: 1} <= {a: 1}", ERR), ("1 < 'a'", ERR), ("'a' > 1", ERR),
    ("[1] < ['a']", ERR), ("[null] < [null]", ERR), ("[1, null] < [2, null]", True), ("[[1]] < [[2]]", True), ("[1] < [[1]]", ERR),
    ("(function(x) x) == (function(x) x)", ERR), ("local f = function(x) x; f == f", ERR), ("local f(x) = x; [f] == [f]", ERR),
    ("local f(x) = x; f < f", ERR), ("local f(x) = x; f != 1", True), ("local f(x) = x; 1 == f", False), ("null == null", True),
    ("null == false", False), ("0 == -0", True), ("'1' == 1", False), ("[] == {}", False), ("{} == {}", True), ("{a:: 1} == {}", True),
    ("{a:: 1} == {a:: 2}", True), ("{a: 1} == {a:: 1}", False), ("std.__compare(null, null)", ERR), ("std.__compare(1, 'a')", ERR),
    ("std.__compare_array([1], 1)", ERR), ("std.__compare_array([], [])", 0.0), ("std.equals({a: 1, b:: error 'x'}, {a: 1})", True),
    ("[1, 2, 3] < [1, 2]", False), ("[1, 2] < [1, 2, error 'x']", True), ("[] < [error 'x']", True), ("[error 'x'] == []", False),
    ("{a: error 'x'} == {b: 1}", False), ("{a: 1, b: error 'x'} == {a: 2, b: error 'x'}", False),
    ("{a: 1, b:: 1} == {a:: 1, b: 1}", False), ("{k: 1, h:: 2} == {k:: 1, h: 3}", False), ("{k:: 1, h: 3} == {k: 1, h:: 2}", False),
    ("{a: 1, b:: 1} != {a:: 1, b: 1}", True), ("std.equals({a: 1, b:: 2}, {b: 2, a:: 1})", False), ("{a: 1} + {a::: 2} == {a: 2}", True),
    ("{a:: 1} + {a: 2} == {}", True), ("{a:: 1} + {a::: 2} == {a: 2}", True),
    ("std.primitiveEquals(1, 1)", True), ("std.primitiveEquals('a', 'b')", False), ("std.primitiveEquals([], [])", ERR),
    ("'a\\u0000' > 'a'", True), ("'\\uffff' < '\\ud800\\udc00'", True), ("'\u00e9' > 'z'", True), ("'Z' < 'a'", True),
]


def enum_fixed(tier, worker, nworkers):
    for i in range(len(FIXED)):
        if i % nworkers == worker:
            yield {"i": i}


def check_fixed(case):
    e, exp = FIXED[case["i"]]
    r = util.eval_one(e, want=["typed"])
    if exp == ERR:
        if util.is_ok(r):
            raise Violation("fixed-no-error", f"{e} must be an error, got {V.show(util.typed(r))}")
    else:
        if not util.is_ok(r):
            raise Violation("fixed-error", f"{e} failed: {r['err']}")
        want = V.num(exp) if isinstance(exp, float) else exp
        if util.typed(r) != want:
            raise Violation("fixed-wrong", f"{e} = {V.show(util.typed(r))}, expected {exp!r}")
    return {"nontrivial": True, "sample": e}


CHECKS = [
    Check("relations_vs_reference", check_relations, case, quick=400, thorough=10000),
    Check("fixed_order_and_equality_cases", check_fixed, enumerate_fn=enum_fixed, exhaustive=True),
]
