"""Check definition, worker loop (Hypothesis), known findings, evidence."""
import hashlib
import json
import os
import re
import time
import traceback

ROOT = os.path.dirname(os.path.dirname(os.path.abspath(__file__)))


class Violation(Exception):
    """The property does not hold on this case.
    signature: computed from the cause (not from the input bytes); used to match known findings."""

    def __init__(self, signature, message, details=None):
        super().__init__(message)
        self.signature = signature
        self.message = message
        self.details = details or {}


class Check:
    """name: identifier; strategy: () -> Hypothesis strategy yielding a JSON-serialisable case;
    fn(case) -> dict(nontrivial=bool, labels=[...], sample=optional printable) or raises Violation;
    quick / thorough: examples per worker; enumerate_fn: optional () -> iterable of cases replacing
    Hypothesis generation (for exhaustive sub-checks); it receives (tier, worker, nworkers)."""

    def __init__(self, name, fn, strategy=None, quick=100, thorough=None, enumerate_fn=None, exhaustive=False,
                 workers=None, max_shrinks=None):
        self.name = name
        self.fn = fn
        self.strategy = strategy
        self.quick = quick
        self.thorough = thorough if thorough is not None else quick * 25
        self.enumerate_fn = enumerate_fn
        self.exhaustive = exhaustive
        self.workers = workers
        self.max_shrinks = max_shrinks


# ---------------------------------------------------------------------------------------------
# Known findings


def load_findings():
    """Returns {property: {key: description}} for `open:` lines."""
    path = os.path.join(ROOT, "KNOWN_FINDINGS.txt")
    out = {}
    if not os.path.exists(path):
        return out
    for line in open(path, encoding="utf-8"):
        line = line.strip()
        m = re.match(r"open:\s+property=(\S+)\s+key=(\S+)\s+(.*)$", line)
        if m:
            out.setdefault(m.group(1), {})[m.group(2)] = m.group(3)
    return out


# ---------------------------------------------------------------------------------------------


def case_hash(case):
    return hashlib.sha1(json.dumps(case, sort_keys=True, ensure_ascii=True).encode()).hexdigest()[:16]


class Stats:
    def __init__(self):
        self.evaluations = 0
        self.nontrivial = set()
        self.labels = {}
        self.samples = []
        self.known = {}
        self.known_examples = {}

    def to_json(self):
        return {
            "evaluations": self.evaluations,
            "nontrivial": sorted(self.nontrivial),
            "labels": self.labels,
            "samples": self.samples,
            "known": self.known,
            "known_examples": self.known_examples,
        }


def run_case(check, case, stats, open_findings, strict=False):
    """Runs one case, updates stats. Violations matching an open finding are counted, not raised."""
    stats.evaluations += 1
    try:
        res = check.fn(case) or {}
    except Violation as v:
        if not strict and v.signature in open_findings:
            stats.known[v.signature] = stats.known.get(v.signature, 0) + 1
            stats.known_examples.setdefault(v.signature, v.message[:300])
            return
        raise
    for lab in res.get("labels", ()):
        stats.labels[lab] = stats.labels.get(lab, 0) + 1
    if res.get("nontrivial"):
        h = case_hash(case)
        if h not in stats.nontrivial:
            stats.nontrivial.add(h)
            n = len(stats.nontrivial)
            if len(stats.samples) < 2 or (int(h[:6], 16) % 211 == 0 and len(stats.samples) < 5):
                s = res.get("sample", case)
                txt = json.dumps(s, ensure_ascii=True)
                if len(txt) > 1500:
                    s = txt[:1500] + "...(truncated)"
                stats.samples.append(s)


def worker_task(args):
    """Runs one check in one worker. Returns a JSON-able result dict."""
    prop, check_name, tier, seed, worker, nworkers = args
    import importlib
    import sys

    sys.setrecursionlimit(20000)

    from . import engine as eng

    mod = importlib.import_module(f"pbt.props.{prop.lower()}")
    check = next(c for c in mod.CHECKS if c.name == check_name)
    open_findings = load_findings().get(prop, {})
    stats = Stats()
    result = {"check": check_name, "worker": worker, "violation": None, "inconclusive": None}
    last_fail = {}
    t0 = time.time()

    def body(case):
        last_fail["last_case"] = case
        try:
            run_case(check, case, stats, open_findings)
        except Violation as v:
            last_fail["case"] = case
            last_fail["v"] = v
            raise

    try:
        if check.enumerate_fn is not None:
            for case in check.enumerate_fn(tier, worker, nworkers):
                body(case)
        else:
            from hypothesis import HealthCheck, Phase, given, seed as hseed, settings

            n = check.quick if tier == "quick" else check.thorough
            st = settings(
                max_examples=n,
                database=None,
                deadline=None,
                derandomize=False,
                suppress_health_check=[HealthCheck.too_slow, HealthCheck.data_too_large, HealthCheck.large_base_example,
                                       HealthCheck.filter_too_much],
                phases=[Phase.generate, Phase.shrink],
                report_multiple_bugs=False,
                print_blob=False,
            )
            test = st(hseed(seed)(given(check.strategy())(body)))
            test()
    except Violation as v:
        fv = last_fail.get("v", v)
        result["violation"] = {
            "case": last_fail.get("case"),
            "signature": fv.signature,
            "message": fv.message,
            "details": fv.details,
        }
    except eng.Inconclusive as e:
        result["inconclusive"] = f"{e} on case {json.dumps(last_fail.get('last_case'))[:600]}"
    except BaseException as e:  # noqa: BLE001 - harness error: infrastructure, not a violation
        if "v" in last_fail:
            fv = last_fail["v"]
            result["violation"] = {
                "case": last_fail.get("case"),
                "signature": fv.signature,
                "message": fv.message,
                "details": fv.details,
            }
        else:
            tb = "".join(traceback.format_exception(type(e), e, e.__traceback__))
            kind = "wall limit" if "Inconclusive" in tb else "harness error"
            result["inconclusive"] = f"{kind} on case {json.dumps(last_fail.get('last_case'))[:600]}: " + tb[-1500:]
    result["stats"] = stats.to_json()
    result["wall_s"] = time.time() - t0
    return result


def repo_tree_hash():
    import subprocess

    try:
        head = subprocess.run(["git", "-C", "/repo", "rev-parse", "HEAD"], capture_output=True, text=True).stdout.strip()
        diff = subprocess.run(["git", "-C", "/repo", "diff", "HEAD"], capture_output=True).stdout
        return head[:12] + ("+dirty:" + hashlib.sha1(diff).hexdigest()[:8] if diff else "")
    except Exception:
        return "unknown"
